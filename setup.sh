#!/usr/bin/env bash
# Run once after a fresh restore, offline: builds the simulator from files on
# disk only (toolchain 1.83.0 = the repository's own; registry cache only).
set -eu
cd "$(dirname "$0")"
export CARGO_NET_OFFLINE=true
export RUSTFLAGS="--cfg rspack_sources_verif"
unset CARGO_TARGET_DIR
mkdir -p target evidence replays
( cd sim && cargo +1.83.0 build --release --offline --target-dir "$(pwd)/../target/native" )
if [ -x ./miri_setup.sh ]; then ./miri_setup.sh || echo "setup: Miri tier unavailable (C19 falls back to the native engine only)"; fi
echo "setup ok"
