#!/usr/bin/env bash
# Miri tier of C19: a seeded subset of the C18/C19 scenarios (concurrent phase
# + consumer tail, no sequential baselines) executed under Miri, which is the
# UB oracle (dangling references, out-of-bounds unchecked indexing, invalid
# UTF-8 in str, data races). The token scheduler serialises the threads, so
# one (seed, index) is one execution under Miri too.
#   ./miri_tier.sh quick|thorough <seed>
#   ./miri_tier.sh replay <file>
# exit 0 clean, 1 violation (VIOLATION line printed), 3 tier unavailable
set -u
cd "$(dirname "$0")"
VERIF_DIR="$(pwd)"
[ -f "$VERIF_DIR/.vendor/.complete" ] && [ -f "$VERIF_DIR/sim-miri/.cargo/config.toml" ] || { echo "miri tier: not set up (run ./miri_setup.sh); skipped"; exit 3; }
export RUSTFLAGS="--cfg rspack_sources_verif"
export MIRIFLAGS="-Zmiri-disable-isolation"
unset CARGO_TARGET_DIR
BIN="$VERIF_DIR/target/native/release/vsim"
LOGS="$VERIF_DIR/target/miri-logs"
# a replay file given relative to the caller's directory
REPLAY_FILE=""
if [ "${1:-}" = "replay" ]; then
  case "${2:-}" in /*) REPLAY_FILE="$2";; *) REPLAY_FILE="$OLDPWD/$2"; [ -f "$REPLAY_FILE" ] || REPLAY_FILE="$VERIF_DIR/$2";; esac
  [ -f "$REPLAY_FILE" ] || { echo "HARNESS-ERROR: no such replay file: ${2:-}"; exit 2; }
fi
cd "$VERIF_DIR/sim-miri"

if [ "${1:-}" = "replay" ]; then
  mkdir -p "$LOGS"
  cargo +nightly miri run --quiet --manifest-path ../sim/Cargo.toml -- miri-replay "$REPLAY_FILE" >"$LOGS/replay.out" 2>"$LOGS/replay.err"
  rc=$?
  cat "$LOGS/replay.out"
  if [ $rc -eq 0 ]; then echo "miri replay: clean on this tree"; exit 0; fi
  if grep -q "VIOLATION-CANDIDATE" "$LOGS/replay.out" || grep -q "Undefined Behavior\|error: .*deadlock\|Data race" "$LOGS/replay.err"; then
    grep -m1 -A6 "Undefined Behavior\|deadlock\|Data race" "$LOGS/replay.err" | cut -c1-300
    echo "VIOLATION property=C19 replay=$2"
    exit 1
  fi
  echo "HARNESS-ERROR: the Miri replay failed without a verdict (see $LOGS/replay.err)"; tail -5 "$LOGS/replay.err"
  exit 2
fi

TIER="${1:-quick}"; SEED="${2:-1}"; export VSIM_TIER="$TIER"
case "$TIER" in quick) N=128; LIMIT=900;; *) N=3200; LIMIT=5400;; esac
W=16
rm -rf "$LOGS"; mkdir -p "$LOGS"
t0=$(date +%s.%N)
# build once (also picks up edits to /repo), then run the workers
cargo +nightly miri run --quiet --manifest-path ../sim/Cargo.toml -- miri-batch "$SEED" 0 0 1 >"$LOGS/build.log" 2>&1 || { echo "HARNESS-ERROR: building vsim for Miri failed (see $LOGS/build.log)"; tail -20 "$LOGS/build.log"; exit 2; }
pids=()
for k in $(seq 0 $((W-1))); do
  # (time limit per worker: a change that makes a run wait forever for real
  # must not hang the tier; a timed-out worker is reported for its current run)
  ( timeout "$LIMIT" cargo +nightly miri run --quiet --manifest-path ../sim/Cargo.toml -- miri-batch "$SEED" "$k" "$N" "$W" >"$LOGS/$k.out" 2>"$LOGS/$k.err"; echo $? >"$LOGS/$k.rc" ) &
  pids+=($!)
done
wait "${pids[@]}"
t1=$(date +%s.%N)
rc=0
mkdir -p "$VERIF_DIR/replays"
for k in $(seq 0 $((W-1))); do
  r=$(cat "$LOGS/$k.rc" 2>/dev/null || echo 99)
  if [ "$r" != "0" ]; then
    idx=$(grep -o "^start index=[0-9]*" "$LOGS/$k.out" | tail -1 | cut -d= -f2)
    if grep -q "VIOLATION-CANDIDATE" "$LOGS/$k.out"; then
      idx=$(grep -o "^VIOLATION-CANDIDATE index=[0-9]*" "$LOGS/$k.out" | head -1 | cut -d= -f2)
      why=$(grep "^VIOLATION-CANDIDATE" "$LOGS/$k.out" | head -1 | cut -c1-400)
    elif [ "$r" = "124" ]; then
      why="Miri worker $k exceeded its time limit ($LIMIT s) in this run (a real, unsimulated wait: hang)"
    elif grep -q "Undefined Behavior\|error: .*deadlock\|Data race" "$LOGS/$k.err"; then
      why=$(grep -m1 -A3 "Undefined Behavior\|deadlock\|Data race" "$LOGS/$k.err" | tr '\n' ' ' | cut -c1-400)
    else
      echo "HARNESS-ERROR: Miri worker $k failed without a UB report (see $LOGS/$k.err)"; tail -5 "$LOGS/$k.err"; [ $rc -eq 0 ] && rc=2; continue
    fi
    [ -n "${idx:-}" ] || { echo "HARNESS-ERROR: Miri worker $k failed before its first run"; [ $rc -eq 0 ] && rc=2; continue; }
    f="$VERIF_DIR/replays/C19-$SEED-$idx-miri.json"
    "$BIN" case C19 "$SEED" "$idx" > "$LOGS/case.json"
    python3 - "$LOGS/case.json" "$f" "$SEED" "$idx" "$why" <<'PY'
import json,sys
case=json.load(open(sys.argv[1]))
json.dump({"version":1,"property":"C19","seed":int(sys.argv[3]),"run":int(sys.argv[4]),"engine":"miri",
  "violation":{"kind":"miri_ub","op_class":"unsafe","detail":sys.argv[5]},"log_hash":"","case":case,
  "how_to_replay":"./miri_tier.sh replay <this file>   (UB oracle)   or   ./check C19 --replay <this file>   (native monitors)"},open(sys.argv[2],"w"),indent=1)
PY
    echo "VIOLATION property=C19 replay=$f"
    echo "  engine=miri run=$idx $why"
    rc=1
  fi
done
done_runs=$(cat "$LOGS"/*.out 2>/dev/null | grep -c "^done index=")
switches=$(cat "$LOGS"/*.out | grep "^done index=" | sed 's/.*switches=\([0-9]*\).*/\1/' | awk '{s+=$1} END {print s+0}')
lends=$(cat "$LOGS"/*.out | grep "^done index=" | sed 's/.*lends=\([0-9]*\).*/\1/' | awk '{s+=$1} END {print s+0}')
echo "miri tier: runs=$done_runs of $N switches=$switches cached_map_lends=$lends wall=$(echo "$t1 - $t0" | bc)s rc=$rc"
# fold the numbers into the evidence file written by the native tier
python3 - "$VERIF_DIR/evidence/C19.json" "$done_runs" "$N" "$switches" "$lends" "$(echo "$t1 - $t0" | bc)" "$rc" <<'PY'
import json,sys
p=sys.argv[1]
try: d=json.load(open(p))
except Exception: sys.exit(0)
d["coverage"]["miri_tier"]={"runs_completed":int(sys.argv[2]),"runs_planned":int(sys.argv[3]),"thread_switches":int(sys.argv[4]),"cached_map_lends":int(sys.argv[5]),"wall_s":float(sys.argv[6]),"exit":int(sys.argv[7]),
  "what":"same scenarios (seed, index) as the native tier, concurrent phase + consumer tail, no baselines; Miri (Stacked Borrows, data-race detector, leak check) is the oracle"}
if int(sys.argv[7])==1: d["violations"]=d.get("violations",0)+1
json.dump(d,open(p,"w"),indent=1)
PY
exit $rc
