//! Concurrent scenarios (C18, C19; also the concurrent halves of C10/C14):
//! generation, execution against the sequential family, judging.

use std::collections::{BTreeMap, BTreeSet};

use serde::{Deserialize, Serialize};

use crate::{
  spec::ReplCall,
  exec::Answer,
  gen::{self, fresh_cache_ids, gen_calls, gen_text, gen_tree, is_ascii_tree, GenCfg, Ids, FILE_NAMES},
  model::content,
  rng::Rng,
  runner::{
    key_of, run_concurrent, run_sequential, sequential_family, Key, Knobs, Outcome, RunFlags,
    Scenario, TAIL_OPS,
  },
  sched::Abort,
  spec::{ConcatHow, Op, OpKind, TreeSpec, WriterPlan},
};

#[derive(Clone, Debug, Serialize, Deserialize, PartialEq)]
pub struct Violation {
  /// stable class name, e.g. `cache_replaced`, `deadlock`, `answer_mismatch`
  pub kind: String,
  /// op class the violation is attached to (`map`, `stream`, ...), if any
  pub op_class: String,
  pub detail: String,
}

#[derive(Clone, Debug, Default)]
pub struct Counters(pub BTreeMap<String, u64>);

impl Counters {
  pub fn add(&mut self, k: &str, n: u64) {
    *self.0.entry(k.to_string()).or_insert(0) += n;
  }
  pub fn inc(&mut self, k: &str) {
    self.add(k, 1);
  }
}

// ---------------------------------------------------------------------------
// generation
// ---------------------------------------------------------------------------

pub fn gen_op_kind_pub(rng: &mut Rng, n_objs: usize, allow_abort: bool) -> OpKind {
  gen_op_kind(rng, n_objs, allow_abort)
}

fn gen_op_kind(rng: &mut Rng, n_objs: usize, allow_abort: bool) -> OpKind {
  match rng.below(100) {
    0..=9 => OpKind::Source,
    10..=13 => OpKind::Buffer,
    14..=17 => OpKind::Size,
    18..=22 => OpKind::Rope,
    23..=27 => OpKind::ToWriter {
      plan: gen_writer_plan(rng),
    },
    28..=47 => OpKind::Map {
      columns: rng.chance(650),
    },
    48..=72 => OpKind::Stream {
      columns: rng.chance(650),
      abort_at: if allow_abort && rng.chance(150) {
        Some(rng.below(4) as u32)
      } else {
        None
      },
    },
    73..=80 => OpKind::Hash,
    81..=82 => OpKind::DebugFmt {
      limit: if rng.chance(700) { Some(rng.below(500) as u32) } else { None },
    },
    83..=88 if n_objs > 1 => OpKind::Eq {
      other: rng.usize_below(n_objs),
    },
    _ => {
      let then = match rng.below(5) {
        0 => OpKind::Source,
        1 => OpKind::Map {
          columns: rng.chance(650),
        },
        2 => OpKind::Stream {
          columns: rng.chance(650),
          abort_at: None,
        },
        3 => OpKind::Hash,
        _ => OpKind::Size,
      };
      OpKind::CloneThen {
        then: Box::new(then),
        orphan: None,
      }
    }
  }
}

pub fn gen_writer_plan(rng: &mut Rng) -> WriterPlan {
  WriterPlan {
    fail_at: if rng.chance(400) { Some(rng.below(30)) } else { None },
    fail_kind: match rng.below(6) {
      0 => crate::spec::FailKind::BrokenPipe,
      1 => crate::spec::FailKind::PermissionDenied,
      2 => crate::spec::FailKind::Other,
      3 => crate::spec::FailKind::WouldBlock,
      4 => crate::spec::FailKind::TimedOut,
      _ => crate::spec::FailKind::StorageFull,
    },
    max_chunk: if rng.chance(500) { 1 + rng.below(5) as u32 } else { 0 },
    eintr_every: if rng.chance(300) { 1 + rng.below(3) as u32 } else { 0 },
    eintr_burst: 1 + rng.below(3) as u32,
    zero_at: if rng.chance(60) { Some(rng.below(20)) } else { None },
    transient: rng.chance(400),
    vectored: rng.chance(300),
    reenter: rng.chance(100),
  }
}

/// A tree that is interesting for concurrent readers: biased towards
/// ReplaceSource with pending replacements, CachedSource over user sources,
/// binary leaves.
fn gen_shared_root(rng: &mut Rng, cfg: &GenCfg, ids: &mut Ids) -> TreeSpec {
  let mut budget = cfg.max_nodes;
  match rng.below(10) {
    0..=3 => {
      // CachedSource over something, often through a user source
      let mut inner = gen_tree(rng, cfg, ids, cfg.max_depth - 1, &mut budget);
      if rng.chance(600) {
        inner = TreeSpec::User {
          inner: Box::new(inner),
          id: ids.user(),
        };
      }
      TreeSpec::Cached {
        inner: Box::new(inner),
        cache_id: ids.cache(),
      }
    }
    4..=6 => {
      let inner = gen_tree(rng, cfg, ids, cfg.max_depth - 1, &mut budget);
      let text = content(&inner).0;
      let mut calls = gen_calls(rng, &text, cfg.max_calls, cfg.ascii);
      if calls.len() < 2 {
        calls.push(gen::gen_call(rng, &text, cfg.ascii, &calls));
        calls.push(gen::gen_call(rng, &text, cfg.ascii, &calls));
      }
      // swarm mode "many replacements" (1% of the shared ReplaceSources): a
      // replacement count next to a power of two (31 .. 1028), so that
      // size-gated code paths of the lazy sort are entered with racing readers
      if !cfg!(miri) && rng.chance(10) {
        let pos = gen::legal_positions(&text);
        let n = gen::magic_count(rng, 10);
        for i in 0..n {
          let a = *rng.pick(&pos);
          let z = if rng.chance(800) { a } else { *rng.pick(&pos) };
          calls.push(ReplCall {
            start: a.min(z),
            end: a.max(z),
            content: std::char::from_digit((i % 36) as u32, 36).unwrap().to_string(),
            name: None,
            enforce: None,
            via_insert: rng.chance(300),
          });
        }
      }
      TreeSpec::Replace {
        inner: Box::new(inner),
        observe_at: gen::pre_history(rng, calls.len()),
        calls,
      }
    }
    7 if cfg.allow_binary => {
      let bytes = gen::gen_bytes(rng, cfg.max_text);
      if rng.chance(500) {
        TreeSpec::RawBuffer { bytes }
      } else {
        TreeSpec::RawBytes { bytes }
      }
    }
    _ => gen_tree(rng, cfg, ids, cfg.max_depth, &mut budget),
  }
}

fn first_file_name(spec: &TreeSpec) -> Option<String> {
  match spec {
    TreeSpec::Original { name, .. } => Some(name.clone()),
    TreeSpec::SourceMap { map, .. } => map.sources.first().cloned(),
    TreeSpec::Concat { children, .. } => children.iter().find_map(first_file_name),
    TreeSpec::Replace { inner, .. }
    | TreeSpec::Cached { inner, .. }
    | TreeSpec::User { inner, .. }
    | TreeSpec::Boxed { inner } => first_file_name(inner),
    _ => None,
  }
}

fn mapped_leaf(rng: &mut Rng, cfg: &GenCfg) -> TreeSpec {
  let mut text = gen_text(rng, cfg.max_text, cfg.ascii);
  if text.is_empty() {
    text = "a;\nb\n".to_string();
  }
  if rng.chance(600) {
    TreeSpec::Original {
      text,
      name: rng.pick(FILE_NAMES).to_string(),
    }
  } else {
    let name = rng.pick(FILE_NAMES).to_string();
    let map = gen::gen_map_for(rng, &text, Some(&name));
    TreeSpec::SourceMap {
      text,
      name,
      map,
      inner: None,
    }
  }
}

/// Directed families: put two specific accesses into one run so the rare
/// windows are not left to chance.
fn gen_directed(rng: &mut Rng, cfg: &GenCfg, ids: &mut Ids) -> Scenario {
  let c = rng.chance(650);
  match rng.below(8) {
    0 => {
      // map || stream || stream on clones of a cold cache over a user source
      let w = mapped_leaf(rng, cfg);
      let id = ids.cache();
      let cached = TreeSpec::Cached {
        inner: Box::new(TreeSpec::User {
          inner: Box::new(w),
          id: ids.user(),
        }),
        cache_id: id,
      };
      let n = 2 + rng.usize_below(2);
      let objects = vec![cached.clone(); n];
      let mut threads = vec![vec![Op {
        obj: 0,
        kind: OpKind::Map { columns: c },
      }]];
      for t in 1..n {
        let mut ops = vec![Op {
          obj: t,
          kind: OpKind::Stream {
            columns: c,
            abort_at: None,
          },
        }];
        if rng.chance(500) {
          ops.push(Op {
            obj: t,
            kind: OpKind::Stream {
              columns: c,
              abort_at: None,
            },
          });
        }
        threads.push(ops);
      }
      Scenario {
        family: "map||stream on clones".into(),
        objects,
        threads,
      }
    }
    1 => {
      // composite over [cached clone, same-name sibling] streamed twice || map on the clone
      let w = mapped_leaf(rng, cfg);
      let sib_name = first_file_name(&w).unwrap_or_else(|| "a.js".into());
      let id = ids.cache();
      let cached = TreeSpec::Cached {
        inner: Box::new(TreeSpec::User {
          inner: Box::new(w),
          id: ids.user(),
        }),
        cache_id: id,
      };
      let sibling = TreeSpec::Original {
        text: gen_text(rng, 12, true) + "z\n",
        name: sib_name,
      };
      let mut children = vec![cached.clone(), sibling];
      if rng.chance(400) {
        children.push(cached.clone());
      }
      let composite = TreeSpec::Concat {
        children,
        how: ConcatHow::New,
      };
      let s = OpKind::Stream {
        columns: c,
        abort_at: None,
      };
      let mut t0 = vec![
        Op {
          obj: 1,
          kind: s.clone(),
        },
        Op {
          obj: 1,
          kind: s.clone(),
        },
      ];
      if rng.chance(300) {
        t0.push(Op {
          obj: 1,
          kind: OpKind::Map { columns: c },
        });
      }
      Scenario {
        family: "composite stream || map".into(),
        objects: vec![cached, composite],
        threads: vec![
          t0,
          vec![Op {
            obj: 0,
            kind: OpKind::Map { columns: c },
          }],
        ],
      }
    }
    2 => {
      // deep clone || first observer of a ReplaceSource with pending replacements
      let inner = mapped_leaf(rng, cfg);
      let text = content(&inner).0;
      let mut calls = vec![];
      for _ in 0..(2 + rng.usize_below(3)) {
        let call = gen::gen_call(rng, &text, cfg.ascii, &calls);
        calls.push(call);
      }
      let r = TreeSpec::Replace {
        inner: Box::new(inner),
        observe_at: gen::pre_history(rng, calls.len()),
        calls,
      };
      let observers = [
        OpKind::Source,
        OpKind::Hash,
        OpKind::Map { columns: c },
        OpKind::Stream {
          columns: c,
          abort_at: None,
        },
        OpKind::Size,
      ];
      let mut threads = vec![
        vec![Op {
          obj: 0,
          kind: rng.pick(&observers).clone(),
        }],
        vec![Op {
          obj: 0,
          kind: OpKind::CloneThen {
            then: Box::new(rng.pick(&observers).clone()),
            orphan: None,
          },
        }],
      ];
      if rng.chance(400) {
        threads.push(vec![Op {
          obj: 0,
          kind: rng.pick(&observers).clone(),
        }]);
      }
      Scenario {
        family: "clone || first sort".into(),
        objects: vec![r],
        threads,
      }
    }
    3 => {
      // hash || hash on clones over a ReplaceSource
      let inner = mapped_leaf(rng, cfg);
      let text = content(&inner).0;
      let calls = gen_calls(rng, &text, 3, cfg.ascii);
      let cached = TreeSpec::Cached {
        inner: Box::new(TreeSpec::Replace {
          inner: Box::new(inner),
          calls,
          observe_at: None,
        }),
        cache_id: ids.cache(),
      };
      Scenario {
        family: "hash || hash".into(),
        objects: vec![cached.clone(), cached],
        threads: vec![
          vec![
            Op {
              obj: 0,
              kind: OpKind::Hash,
            },
            Op {
              obj: 0,
              kind: OpKind::Hash,
            },
          ],
          vec![Op {
            obj: 1,
            kind: OpKind::Hash,
          }],
        ],
      }
    }
    4 => {
      // == || source() on a binary leaf
      let bytes = gen::gen_bytes(rng, 12);
      let leaf = if rng.chance(700) {
        TreeSpec::RawBuffer { bytes }
      } else {
        TreeSpec::RawBytes { bytes }
      };
      Scenario {
        family: "eq || lazy decode".into(),
        objects: vec![leaf.clone(), leaf],
        threads: vec![
          vec![
            Op {
              obj: 0,
              kind: OpKind::Eq { other: 1 },
            },
            Op {
              obj: 1,
              kind: OpKind::Eq { other: 0 },
            },
          ],
          vec![Op {
            obj: 0,
            kind: if rng.chance(500) { OpKind::Source } else { OpKind::Rope },
          }],
        ],
      }
    }
    5 => {
      // aborted stream || map, then a full stream
      let w = mapped_leaf(rng, cfg);
      let cached = TreeSpec::Cached {
        inner: Box::new(TreeSpec::User {
          inner: Box::new(w),
          id: ids.user(),
        }),
        cache_id: ids.cache(),
      };
      Scenario {
        family: "aborted stream || map".into(),
        objects: vec![cached.clone(), cached],
        threads: vec![
          vec![
            Op {
              obj: 0,
              kind: OpKind::Stream {
                columns: c,
                abort_at: Some(rng.below(3) as u32),
              },
            },
            Op {
              obj: 0,
              kind: OpKind::Stream {
                columns: c,
                abort_at: None,
              },
            },
          ],
          vec![Op {
            obj: 1,
            kind: OpKind::Map { columns: c },
          }],
        ],
      }
    }
    6 => {
      // a cancelled stream (the consumer callback unwinds) on a shared
      // composite, followed by observers on the same and on another thread:
      // no lock may stay held or poisoned
      let inner = mapped_leaf(rng, cfg);
      let text = content(&inner).0;
      let calls = gen_calls(rng, &text, 3, cfg.ascii);
      let r = TreeSpec::Replace {
        inner: Box::new(inner),
        observe_at: gen::pre_history(rng, calls.len()),
        calls,
      };
      let shared = match rng.below(3) {
        0 => r,
        1 => TreeSpec::Cached {
          inner: Box::new(r),
          cache_id: ids.cache(),
        },
        _ => TreeSpec::Concat {
          children: vec![r, mapped_leaf(rng, cfg)],
          how: ConcatHow::New,
        },
      };
      let observers = [
        OpKind::Source,
        OpKind::Hash,
        OpKind::Map { columns: c },
        OpKind::Stream {
          columns: c,
          abort_at: None,
        },
        OpKind::CloneThen {
          then: Box::new(OpKind::Source),
          orphan: None,
        },
      ];
      Scenario {
        family: "cancelled stream || observers".into(),
        objects: vec![shared],
        threads: vec![
          vec![
            Op {
              obj: 0,
              kind: OpKind::Stream {
                columns: c,
                abort_at: Some(rng.below(3) as u32),
              },
            },
            Op {
              obj: 0,
              kind: rng.pick(&observers).clone(),
            },
          ],
          vec![Op {
            obj: 0,
            kind: rng.pick(&observers).clone(),
          }],
        ],
      }
    }
    _ => {
      // two sorters + a reader of the index
      let inner = mapped_leaf(rng, cfg);
      let text = content(&inner).0;
      let mut calls = vec![];
      for _ in 0..(2 + rng.usize_below(3)) {
        let call = gen::gen_call(rng, &text, cfg.ascii, &calls);
        calls.push(call);
      }
      let r = TreeSpec::Replace {
        inner: Box::new(inner),
        observe_at: gen::pre_history(rng, calls.len()),
        calls,
      };
      Scenario {
        family: "two sorters".into(),
        objects: vec![r],
        threads: vec![
          vec![Op {
            obj: 0,
            kind: OpKind::Source,
          }],
          vec![Op {
            obj: 0,
            kind: OpKind::Stream {
              columns: c,
              abort_at: None,
            },
          }],
          vec![Op {
            obj: 0,
            kind: OpKind::Hash,
          }],
        ],
      }
    }
  }
}

/// Swarm mode "huge line" (4 in 1000 scenarios): one generated line longer
/// than 64 KiB but with fewer than 64 Ki characters, mapped at columns beyond
/// byte 65 535 — sizes at which 16-bit tables, block buffers and the like
/// change behaviour.
fn gen_huge_line(rng: &mut Rng, ids: &mut Ids) -> Scenario {
  let n = 21_900 + rng.usize_below(2_200);
  let unit = *rng.pick(&["中", "文", "世"]);
  let mut text = String::with_capacity(n * 3 + 8);
  if rng.chance(300) {
    text.push_str("ab\n");
  }
  for _ in 0..n {
    text.push_str(unit);
  }
  if rng.chance(500) {
    text.push_str(";\n");
  }
  let line = if text.starts_with("ab\n") { 2 } else { 1 };
  let mut cols: Vec<u32> = vec![0, 21_000 + rng.below(800) as u32, 21_850 + rng.below(40) as u32, (n - 1) as u32];
  cols.sort_unstable();
  cols.dedup();
  let segs: Vec<crate::model::Seg> = cols
    .iter()
    .map(|c| crate::model::Seg {
      line,
      col: *c,
      orig: Some((0, 1, *c % 50, None)),
    })
    .collect();
  let leaf = TreeSpec::SourceMap {
    text,
    name: "big-line.js".into(),
    map: crate::spec::MapSpec {
      mappings: crate::model::encode_mappings(&segs),
      sources: vec!["big-line.js".into()],
      sources_content: vec![],
      names: vec![],
      file: None,
      source_root: None,
      debug_id: None,
    },
    inner: None,
  };
  let root = if rng.chance(500) {
    TreeSpec::Cached {
      inner: Box::new(leaf),
      cache_id: ids.cache(),
    }
  } else {
    leaf
  };
  let s = OpKind::Stream {
    columns: true,
    abort_at: None,
  };
  Scenario {
    family: "huge line".into(),
    objects: vec![root],
    threads: vec![
      vec![Op { obj: 0, kind: s.clone() }, Op { obj: 0, kind: s }],
      vec![Op {
        obj: 0,
        kind: OpKind::Map { columns: true },
      }],
    ],
  }
}

pub fn gen_scenario(rng: &mut Rng) -> Scenario {
  // (not under Miri: interpreting 64 KiB of text costs minutes per run)
  let huge = rng.chance(4);
  if huge && !cfg!(miri) {
    return gen_huge_line(rng, &mut Ids::new());
  }
  let ascii = rng.chance(700);
  let mut cfg = GenCfg::small(ascii);
  cfg.allow_estimate = true;
  let deep = crate::rng::deep();
  if deep {
    cfg.max_nodes = 10;
    cfg.max_calls = 6;
  }
  let mut ids = Ids::new();
  if rng.chance(400) {
    return gen_directed(rng, &cfg, &mut ids);
  }
  let mut objects = vec![gen_shared_root(rng, &cfg, &mut ids)];
  // clones sharing caches
  if matches!(objects[0], TreeSpec::Cached { .. }) {
    if rng.chance(600) {
      objects.push(objects[0].clone());
    }
    if rng.chance(300) {
      let name = first_file_name(&objects[0]).unwrap_or_else(|| "a.js".into());
      objects.push(TreeSpec::Concat {
        children: vec![
          objects[0].clone(),
          TreeSpec::Original {
            text: gen_text(rng, 10, true),
            name,
          },
        ],
        how: ConcatHow::New,
      });
    }
  }
  if rng.chance(250) {
    objects.push(gen_shared_root(rng, &cfg, &mut ids));
  }
  // a structural twin (own caches) so that `eq` has a partner
  if rng.chance(400) {
    let mut map = BTreeMap::new();
    let twin = fresh_cache_ids(&objects[0], &mut ids, &mut map);
    objects.push(twin);
  }
  let n_threads = if rng.chance(650) { 2 } else { 3 };
  let mut threads = vec![];
  for _ in 0..n_threads {
    let n_ops = 1 + rng.usize_below(if deep { 6 } else { 4 });
    let ops = (0..n_ops)
      .map(|_| {
        let obj = if rng.chance(600) {
          0
        } else {
          rng.usize_below(objects.len())
        };
        Op {
          obj,
          kind: gen_op_kind(rng, objects.len(), true),
        }
      })
      .collect();
    threads.push(ops);
  }
  Scenario {
    family: "general".into(),
    objects,
    threads,
  }
}

// ---------------------------------------------------------------------------
// judging
// ---------------------------------------------------------------------------

#[derive(Clone, Debug)]
pub struct JudgeCfg {
  /// compare every op's answer with the sequential family (C18); off for C19
  pub compare_answers: bool,
  /// run the consumer tail and treat its errors as violations
  pub consume: bool,
  /// abort the run on cache replacement (native) or only record it (Miri)
  pub fatal_events: bool,
  /// skip the sequential baselines entirely (Miri tier)
  pub skip_baselines: bool,
  pub keep_trace: bool,
}

pub const FATAL: &[&str] = &["cache.replaced", "cache.removed"];
const NOT_FATAL: &[&str] = &[];

pub struct ConcResult {
  pub violations: Vec<Violation>,
  pub counters: Counters,
  pub outcome: Outcome,
  pub skipped: Option<String>,
}

fn judge_written(ans: &Answer, plan: &WriterPlan, truth: &[u8], out: &mut Vec<Violation>) {
  if let Some(detail) = crate::props_c07::judge_written(ans, plan, truth) {
    out.push(Violation {
      kind: "writer".into(),
      op_class: "to_writer".into(),
      detail,
    });
  }
}

/// Root cache id of an object, if its root node is a `Cached`.
fn root_cache(spec: &TreeSpec) -> Option<u32> {
  match spec {
    TreeSpec::Cached { cache_id, .. } => Some(*cache_id),
    TreeSpec::Boxed { inner } => root_cache(inner),
    _ => None,
  }
}

fn cached_inners(spec: &TreeSpec, out: &mut Vec<TreeSpec>) {
  match spec {
    TreeSpec::Concat { children, .. } => children.iter().for_each(|c| cached_inners(c, out)),
    TreeSpec::Replace { inner, .. } | TreeSpec::User { inner, .. } | TreeSpec::Boxed { inner } => {
      cached_inners(inner, out)
    }
    TreeSpec::Cached { inner, .. } => {
      out.push((**inner).clone());
      cached_inners(inner, out);
    }
    _ => {}
  }
}

/// Sequential self-consistency gate for one wrapped tree `w`: do a cold
/// `map`, a cold stream, and the cache's fill/replay paths all attribute
/// alike? (If not, a CachedSource over `w` is history dependent even
/// single-threaded — that is C10's finding, not a concurrency one.)
pub fn gate_consistent(w: &TreeSpec, shards: u64) -> bool {
  // the wrapped tree must report true chunk positions / end and attribute
  // like its own map (composites above it consume those positions)
  if crate::strict::w_self_inconsistency(w, shards).is_some() {
    return false;
  }
  let ascii = is_ascii_tree(w);
  let text = content(w).0;
  for columns in [true, false] {
    let m = OpKind::Map { columns };
    let s = OpKind::Stream {
      columns,
      abort_at: None,
    };
    let cached = TreeSpec::Cached {
      inner: Box::new(w.clone()),
      cache_id: 9_000_001,
    };
    let scn = Scenario {
      family: "gate".into(),
      objects: vec![w.clone(), cached],
      threads: vec![vec![
        Op { obj: 0, kind: m.clone() },
        Op { obj: 0, kind: s.clone() },
        Op { obj: 1, kind: s.clone() },
        Op { obj: 1, kind: m.clone() },
        Op { obj: 1, kind: s.clone() },
      ]],
    };
    let order: Vec<(usize, usize)> = (0..5).map(|i| (0, i)).collect();
    let a = run_sequential(&scn, shards, &order, false, false);
    let scn2 = Scenario {
      family: "gate".into(),
      objects: scn.objects.clone(),
      threads: vec![vec![Op { obj: 1, kind: m.clone() }, Op { obj: 1, kind: s.clone() }]],
    };
    let b = run_sequential(&scn2, shards, &[(0, 0), (0, 1)], false, false);
    let keys: Vec<Key> = vec![
      key_of(&a.answers[0][0], &m, &text, ascii, ascii),
      key_of(&a.answers[0][3], &m, &text, ascii, ascii),
      key_of(&b.answers[0][0], &m, &text, ascii, ascii),
    ];
    let skeys: Vec<Key> = vec![
      key_of(&a.answers[0][1], &s, &text, ascii, ascii),
      key_of(&a.answers[0][2], &s, &text, ascii, ascii),
      key_of(&a.answers[0][4], &s, &text, ascii, ascii),
      key_of(&b.answers[0][1], &s, &text, ascii, ascii),
    ];
    if keys.iter().any(|k| *k != keys[0]) || skeys.iter().any(|k| *k != skeys[0]) {
      return false;
    }
    // map and stream must attribute alike too
    if let (Key::Map(mc), Key::Stream { canon: sc, .. }) = (&keys[0], &skeys[0]) {
      if mc != sc {
        return false;
      }
    }
    if let (Key::MapNone, Key::Stream { canon: Some(sc), .. }) = (&keys[0], &skeys[0]) {
      let empty = match sc {
        crate::model::Canon::Full(l) => l.iter().all(|r| r.is_empty()),
        crate::model::Canon::Lines(l) => l.iter().all(|r| r.is_none()),
      };
      if !empty {
        return false;
      }
    }
  }
  true
}

pub fn check_conc(
  scn: &Scenario,
  knobs: &Knobs,
  replay: Option<Vec<(u64, usize)>>,
  cfg: &JudgeCfg,
) -> ConcResult {
  let mut violations = vec![];
  let mut counters = Counters::default();
  let flags = RunFlags {
    keep_trace: cfg.keep_trace,
    consume: cfg.consume,
    fatal_events: if cfg.fatal_events { FATAL } else { NOT_FATAL },
    do_tail: true,
  };

  let texts: Vec<(String, Vec<u8>)> = scn.objects.iter().map(content).collect();
  let ascii: Vec<bool> = scn.objects.iter().map(is_ascii_tree).collect();
  // Objects with a composite above a cache: their positional answers depend on
  // the inner cache's history even sequentially (recorded finding, DESIGN 12),
  // so only their text is compared against the sequential family.
  let fragile: Vec<bool> = scn.objects.iter().map(crate::strict::composite_over_cache).collect();

  // ---- sequential family -------------------------------------------------
  let mut allowed: Vec<Vec<BTreeSet<Key>>> = scn
    .threads
    .iter()
    .map(|t| vec![BTreeSet::new(); t.len()])
    .collect();
  let mut allowed_tail: Vec<Vec<BTreeSet<Key>>> =
    vec![vec![BTreeSet::new(); TAIL_OPS.len()]; scn.objects.len()];
  let mut gated = false;
  if !cfg.skip_baselines {
    // gate: every wrapped tree must be sequentially self-consistent
    let mut inners = vec![];
    for o in &scn.objects {
      cached_inners(o, &mut inners);
    }
    inners.dedup();
    for w in &inners {
      if !gate_consistent(w, knobs.shards) {
        gated = true;
      }
    }
    if gated {
      counters.inc("gated_inconsistent_wrapped_tree");
    }
    // single-op orders first: a call that panics all alone on a cold value is
    // out of domain; a call that only panics after other calls (e.g. after a
    // cancelled stream left a lock poisoned) is a violation, not a baseline
    let mut family = sequential_family(scn);
    family.sort_by_key(|o| o.len() != 1);
    let mut panics_alone: BTreeSet<(usize, usize)> = BTreeSet::new();
    for order in family {
      let full = order.len() == scn.n_ops();
      let seq = run_sequential(scn, knobs.shards, &order, cfg.consume, full);
      if !seq.unsafe_fails.is_empty() {
        violations.push(Violation {
          kind: "precondition".into(),
          op_class: "sequential".into(),
          detail: format!(
            "unsafe precondition violated in a single-threaded run: {:?}",
            seq.unsafe_fails
          ),
        });
      }
      if !seq.self_deadlocks.is_empty() {
        violations.push(Violation {
          kind: "deadlock".into(),
          op_class: "sequential".into(),
          detail: format!("a single-threaded call sequence waits forever for a lock: {:?}", seq.self_deadlocks),
        });
      }
      if seq.events.contains_key("cache.replaced") || seq.events.contains_key("cache.removed") {
        violations.push(Violation {
          kind: "cache_replaced".into(),
          op_class: "sequential".into(),
          detail: "a cached map was replaced/removed in a single-threaded run".into(),
        });
      }
      for (t, i) in &order {
        let op = &scn.threads[*t][*i];
        let a = &seq.answers[*t][*i];
        if a.is_panic() {
          if let Answer::Panicked(m) = a {
            if order.len() == 1 {
              panics_alone.insert((*t, *i));
            } else if !panics_alone.contains(&(*t, *i))
              && !m.contains("rspack_sources_verif: precondition")
              && !crate::strict::is_overflow_panic(m)
              // C18's fault model: a cancelled stream must leave no lock held or
              // poisoned. Other history-dependent panics are single-threaded
              // defects that C10 / C14 decide; here the scenario is skipped.
              && (m.contains("PoisonError")
                || (order.iter().take_while(|x| *x != &(*t, *i)).any(|(tt, ii)| {
                  matches!(seq.answers[*tt][*ii], Answer::Aborted { .. })
                }) && {
                  // control: the same order with every stream run to its end.
                  // If the call panics there too, the cancellation is not the
                  // cause (a history-dependent panic of another kind).
                  let mut uncancelled = scn.clone();
                  for th in uncancelled.threads.iter_mut() {
                    for o in th.iter_mut() {
                      o.kind = o.kind.without_fault().clone();
                      if let OpKind::Stream { abort_at, .. } = &mut o.kind {
                        *abort_at = None;
                      }
                    }
                  }
                  let control = run_sequential(&uncancelled, knobs.shards, &order, cfg.consume, false);
                  counters.inc("probe:panic_after_cancelled_stream_control_run");
                  !control.answers[*t][*i].is_panic()
                }))
            {
              violations.push(Violation {
                kind: "panic".into(),
                op_class: op.kind.class().into(),
                detail: format!(
                  "single-threaded: T{} op{} {} on object {} returns on a cold value but panics after the calls before it in the order {:?}: {}",
                  t, i, op.kind.label(), op.obj, order, m
                ),
              });
            }
            if !m.contains("rspack_sources_verif: precondition") {
              return ConcResult {
                violations,
                counters: {
                  counters.inc("baseline_panics");
                  counters
                },
                outcome: Outcome {
                  answers: vec![],
                  stats: Default::default(),
                  tail: vec![],
                  unsafe_fails: vec![],
                  self_deadlocks: vec![],
                },
                skipped: Some(format!("sequential baseline panics: {}", m)),
              };
            }
          }
        }
        let attribution = ascii[op.obj] && !gated && !fragile[op.obj];
        allowed[*t][*i].insert(key_of(a, &op.kind, &texts[op.obj].0, attribution, attribution));
      }
      if full {
        for (o, answers) in seq.tail.iter().enumerate() {
          for (k, a) in answers.iter().enumerate() {
            let attribution = ascii[o] && !gated && !fragile[o];
            allowed_tail[o][k].insert(key_of(a, &TAIL_OPS[k], &texts[o].0, attribution, attribution));
          }
        }
      }
    }
    // an op with an armed collaborator fault that does not reach its fault
    // point completes like the plain op: the same orders with every fault
    // disarmed contribute their answers too (a fired fault leaves nothing
    // behind, so these are the answers a sequential caller can get)
    if scn.threads.iter().flatten().any(|o| matches!(o.kind, OpKind::ChildFault { .. })) {
      let mut plain = scn.clone();
      for th in plain.threads.iter_mut() {
        for o in th.iter_mut() {
          o.kind = o.kind.without_fault().clone();
        }
      }
      for order in sequential_family(&plain) {
        let seq = run_sequential(&plain, knobs.shards, &order, cfg.consume, false);
        for (t, i) in &order {
          let a = &seq.answers[*t][*i];
          if a.is_panic() || matches!(a, Answer::NotRun) {
            continue;
          }
          let op = &plain.threads[*t][*i];
          let attribution = ascii[op.obj] && !gated && !fragile[op.obj];
          allowed[*t][*i].insert(key_of(a, &op.kind, &texts[op.obj].0, attribution, attribution));
        }
      }
      counters.inc("probe:fault_free_control_family");
    }
    for t in allowed.iter() {
      for s in t {
        if s.len() > 1 {
          counters.inc("seq_ambiguous_ops");
        }
      }
    }
  }

  // ---- concurrent run ----------------------------------------------------
  let outcome = run_concurrent(scn, knobs, replay, &flags);

  match &outcome.stats.abort {
    Some(Abort::Deadlock { waiting }) => violations.push(Violation {
      kind: "deadlock".into(),
      op_class: "schedule".into(),
      detail: format!("all live threads blocked: {}", waiting.join("; ")),
    }),
    Some(Abort::StepBudget { decisions }) => violations.push(Violation {
      kind: "no_progress".into(),
      op_class: "schedule".into(),
      detail: format!("step budget exhausted after {} decisions", decisions),
    }),
    Some(Abort::Event { name, site }) => violations.push(Violation {
      kind: "cache_replaced".into(),
      op_class: "map".into(),
      detail: format!("event {} at {}: a cached map was replaced or removed", name, site),
    }),
    None => {}
  }
  for name in ["cache.replaced", "cache.removed"] {
    if outcome.stats.events.contains_key(name)
      && !violations.iter().any(|v| v.kind == "cache_replaced")
    {
      violations.push(Violation {
        kind: "cache_replaced".into(),
        op_class: "map".into(),
        detail: format!("event {}: a cached map was replaced or removed", name),
      });
    }
  }
  if !outcome.unsafe_fails.is_empty() {
    violations.push(Violation {
      kind: "precondition".into(),
      op_class: "unsafe".into(),
      detail: format!("unsafe precondition violated: {:?}", outcome.unsafe_fails),
    });
  }
  if !outcome.self_deadlocks.is_empty() {
    violations.push(Violation {
      kind: "deadlock".into(),
      op_class: "schedule".into(),
      detail: format!("after the threads ended a single-threaded call waits forever for a lock: {:?}", outcome.self_deadlocks),
    });
  }

  let aborted_run = outcome.stats.abort.is_some();
  // per-op checks
  for (t, ops) in scn.threads.iter().enumerate() {
    for (i, op) in ops.iter().enumerate() {
      let a = &outcome.answers[t][i];
      if matches!(a, Answer::NotRun) {
        continue;
      }
      if let Answer::Panicked(m) = a {
        if crate::strict::is_positional_op(&op.kind)
          && !m.contains("PoisonError")
          && !m.contains("rspack_sources_verif: precondition")
          && (fragile[op.obj] || (crate::strict::is_overflow_panic(m) && (gated || !ascii[op.obj])))
        {
          // positional arithmetic of a composite above a re-chunking cache
          // (recorded finding) or overflow checks on a non-ASCII / gated tree
          counters.inc("positional_panic_not_judged");
          continue;
        }
        // C19 (no answer comparison; under Miri not even baselines): a plain
        // panic cannot be told from an out-of-domain input and is not its
        // subject — only a violated precondition counts
        let is_pre = m.contains("rspack_sources_verif: precondition");
        if !aborted_run && (cfg.compare_answers || is_pre) {
          violations.push(Violation {
            kind: if is_pre {
              "precondition".into()
            } else {
              "panic".into()
            },
            op_class: op.kind.class().into(),
            detail: format!("T{} op{} {} on object {} panicked: {}", t, i, op.kind.label(), op.obj, m),
          });
        }
        continue;
      }
      if let Answer::Stream(s) = a {
        if let Some(e) = &s.tail_error {
          violations.push(Violation {
            kind: "consumer_tail".into(),
            op_class: "stream".into(),
            detail: format!("T{} op{}: {}", t, i, e),
          });
        }
      }
      if let (OpKind::ToWriter { plan }, true) = (&op.kind, cfg.compare_answers) {
        judge_written(a, plan, &texts[op.obj].1, &mut violations);
        continue;
      }
      if cfg.compare_answers && !cfg.skip_baselines {
        let attribution = ascii[op.obj] && !gated && !fragile[op.obj];
        if gated && crate::strict::is_positional_op(&op.kind) {
          // a cache over a tree that is not self-consistent: its map / stream
          // answers (even their text, for multi-byte content) depend on the
          // path taken; C10 records that, nothing is compared here
          continue;
        }
        let k = key_of(a, &op.kind, &texts[op.obj].0, attribution, attribution);
        let set = &allowed[t][i];
        // A cancelled stream is a fault, not an answer: what matters is the
        // state afterwards (later ops and the tail pass). Whether the
        // cancellation point is reached depends on chunking, which
        // legitimately differs between the fill and the replay path.
        if matches!(k, Key::Aborted) {
          continue;
        }
        let set: BTreeSet<Key> = set.iter().filter(|x| !matches!(x, Key::Aborted)).cloned().collect();
        if set.is_empty() {
          continue;
        }
        if !set.contains(&k) {
          violations.push(Violation {
            kind: "answer_mismatch".into(),
            op_class: op.kind.class().into(),
            detail: format!(
              "T{} op{} {} on object {}: concurrent answer {} is not an answer of any sequential order (allowed: {})",
              t,
              i,
              op.kind.label(),
              op.obj,
              a.brief(),
              set.iter().map(|k| format!("{:?}", k)).collect::<Vec<_>>().join(" | ")
            ),
          });
        }
      }
    }
  }
  // tail
  if cfg.compare_answers && !cfg.skip_baselines && !aborted_run {
    for (o, answers) in outcome.tail.iter().enumerate() {
      for (k, a) in answers.iter().enumerate() {
        if let Answer::Panicked(m) = a {
          // a panic that the sequential tail shows too is out of domain
          let tolerated = crate::strict::is_positional_op(&TAIL_OPS[k])
            && !m.contains("PoisonError")
            && !m.contains("rspack_sources_verif: precondition")
            && (fragile[o] || (crate::strict::is_overflow_panic(m) && (gated || !ascii[o])));
          if !tolerated && !allowed_tail[o][k].contains(&Key::Panicked) {
            violations.push(Violation {
              kind: "panic_after_run".into(),
              op_class: TAIL_OPS[k].class().into(),
              detail: format!("after the threads ended, {} on object {} panicked: {}", TAIL_OPS[k].label(), o, m),
            });
          }
          continue;
        }
        let attribution = ascii[o] && !gated && !fragile[o];
        if gated && crate::strict::is_positional_op(&TAIL_OPS[k]) {
          continue;
        }
        let key = key_of(a, &TAIL_OPS[k], &texts[o].0, attribution, attribution);
        if !allowed_tail[o][k].contains(&key) {
          violations.push(Violation {
            kind: "state_after_run".into(),
            op_class: TAIL_OPS[k].class().into(),
            detail: format!(
              "after the threads ended, {} on object {} answers {} which no sequential order produces (allowed: {})",
              TAIL_OPS[k].label(),
              o,
              a.brief(),
              allowed_tail[o][k].iter().map(|k| format!("{:?}", k)).collect::<Vec<_>>().join(" | ")
            ),
          });
        }
      }
    }
  } else if !aborted_run {
    for (o, answers) in outcome.tail.iter().enumerate() {
      for (k, a) in answers.iter().enumerate() {
        let k = k.min(TAIL_OPS.len() - 1);
        // without baselines a plain panic cannot be told from an out-of-domain
        // input (totality is C17's subject); a precondition panic always counts
        if let Answer::Panicked(m) = a {
          if m.contains("rspack_sources_verif: precondition") {
            violations.push(Violation {
              kind: "precondition".into(),
              op_class: TAIL_OPS[k].class().into(),
              detail: format!("after the threads ended, {} on object {} panicked: {}", TAIL_OPS[k].label(), o, m),
            });
          }
        }
        if let Answer::Stream(s) = a {
          if let Some(e) = &s.tail_error {
            violations.push(Violation {
              kind: "consumer_tail".into(),
              op_class: "stream".into(),
              detail: format!("tail pass object {}: {}", o, e),
            });
          }
        }
      }
    }
  }

  // pointer identity of cached storage (never dereferenced)
  if !aborted_run {
    let mut by_cache: BTreeMap<(u32, bool), Vec<Vec<(usize, usize)>>> = BTreeMap::new();
    let mut final_ptrs: BTreeMap<(u32, bool), Vec<(usize, usize)>> = BTreeMap::new();
    for (t, ops) in scn.threads.iter().enumerate() {
      for (i, op) in ops.iter().enumerate() {
        if let (OpKind::Stream { columns, .. }, Answer::Stream(s), Some(cid)) =
          (op.kind.without_fault(), &outcome.answers[t][i], root_cache(&scn.objects[op.obj]))
        {
          by_cache.entry((cid, *columns)).or_default().push(s.borrowed.clone());
        }
      }
    }
    for (o, answers) in outcome.tail.iter().enumerate() {
      if let Some(cid) = root_cache(&scn.objects[o]) {
        for (k, a) in answers.iter().enumerate() {
          if let (OpKind::Stream { columns, .. }, Answer::Stream(s)) = (&TAIL_OPS[k], a) {
            final_ptrs.insert((cid, *columns), s.borrowed.clone());
          }
        }
      }
    }
    for (key, tuples) in &by_cache {
      if let Some(fin) = final_ptrs.get(key) {
        let others: Vec<&Vec<(usize, usize)>> = tuples.iter().filter(|t| *t != fin).collect();
        let distinct: BTreeSet<&Vec<(usize, usize)>> = others.iter().copied().collect();
        counters.add("pointer_identity_streams_checked", tuples.len() as u64);
        if distinct.len() > 1 || others.len() > 1 {
          violations.push(Violation {
            kind: "cached_storage_moved".into(),
            op_class: "stream".into(),
            detail: format!(
              "cache #{} (columns={}): {} stream(s) were handed borrowed names that are not the finally cached storage ({} distinct storages); at most the one filling stream may differ",
              key.0,
              key.1,
              others.len(),
              distinct.len()
            ),
          });
        }
      }
    }
  }

  // probes
  let st = &outcome.stats;
  counters.add("decisions", st.decisions);
  counters.add("switches", st.switches);
  for (k, v) in &st.blocked {
    counters.add(&format!("blocked:{}", k), *v);
  }
  for (k, v) in &st.events {
    counters.add(&format!("event:{}", k), *v);
  }
  if st.blocked.contains_key("map.entry") || st.blocked.contains_key("map.get") || st.blocked.contains_key("map.insert") {
    counters.inc("probe:waited_on_cache_shard");
  }
  if st.blocked.contains_key("once.get_or_init") {
    counters.inc("probe:once_contended");
  }
  if st.blocked.contains_key("mutex.lock") {
    counters.inc("probe:index_mutex_contended");
  }
  for (a, b) in &st.site_pairs {
    if a.starts_with("map.get@cached_source") && (b.starts_with("map.entry@") || b.starts_with("user.")) {
      counters.inc("probe:switch_inside_map_window");
    }
    if a.starts_with("atomic.load@replace_source") && b.starts_with("atomic.load@replace_source") {
      counters.inc("probe:two_sorters");
    }
    if a.starts_with("cb.chunk") || a.starts_with("user.stream.chunk") {
      counters.inc("probe:switch_inside_stream_callback");
    }
  }
  for ops in &scn.threads {
    for op in ops {
      if matches!(op.kind, OpKind::Stream { abort_at: Some(_), .. }) {
        counters.inc("fault:stream_cancel_planned");
      }
      if matches!(op.kind, OpKind::ToWriter { .. }) {
        counters.inc("fault:writer_plan");
      }
      if matches!(op.kind, OpKind::ChildFault { .. }) {
        counters.inc("fault:collaborator_unwind_planned");
      }
    }
  }
  for t in &outcome.answers {
    for a in t {
      match a {
        Answer::Aborted { chunks_before: u32::MAX } => counters.inc("fault:collaborator_unwind_fired"),
        Answer::Aborted { .. } => counters.inc("fault:stream_cancelled_fired"),
        Answer::Written { io, .. } => {
          counters.add("fault:short_write_fired", io.short_writes);
          counters.add("fault:eintr_fired", io.eintr);
          counters.add("fault:hard_write_error_fired", io.hard_errors);
          counters.add("fault:write_zero_fired", io.zero_returns);
        }
        _ => {}
      }
    }
  }

  ConcResult {
    violations,
    counters,
    outcome,
    skipped: None,
  }
}


/// Post-pass over a generated scenario (own PRNG stream, so the scenario
/// population itself is unchanged): in one scenario out of five, some ops on
/// objects that contain a user-defined child source, and some stream ops on
/// any object, get a one-shot collaborator fault armed (`OpKind::ChildFault`).
pub fn inject_child_faults(scn: &mut Scenario, rng: &mut Rng) {
  // orphaned clones first (own sub-stream): 40 % of the clone-then-observe ops
  {
    let mut r = rng.fork(7);
    for th in scn.threads.iter_mut() {
      for op in th.iter_mut() {
        orphan_clone(&mut op.kind, &mut r);
      }
    }
  }
  if !rng.chance(200) {
    return;
  }
  let has_user: Vec<bool> = scn
    .objects
    .iter()
    .map(|o| o.contains(&|n| matches!(n, TreeSpec::User { .. })))
    .collect();
  for th in scn.threads.iter_mut() {
    for op in th.iter_mut() {
      let base_ok = match &op.kind {
        OpKind::Source
        | OpKind::Buffer
        | OpKind::Size
        | OpKind::Rope
        | OpKind::ToWriter { .. }
        | OpKind::Map { .. }
        | OpKind::Hash
        | OpKind::UpdateHash => has_user.get(op.obj).copied().unwrap_or(false),
        OpKind::Stream { abort_at: None, .. } => true,
        OpKind::CloneThen { then, .. } => {
          has_user.get(op.obj).copied().unwrap_or(false)
            && !matches!(**then, OpKind::Stream { abort_at: Some(_), .. })
        }
        _ => false,
      };
      if base_ok && rng.chance(350) {
        // small countdowns dominate: the first few points are where a call
        // has taken a lock or claimed a slot but not yet published
        let at = if rng.chance(700) { rng.below(4) } else { rng.below(24) } as u32;
        let then = Box::new(op.kind.clone());
        op.kind = OpKind::ChildFault { at, then };
      }
    }
  }
}

/// Turns a clone-then-observe op into its *orphaned* form in 40 % of the
/// cases: the observer then runs on a clone of a warmed-up clone whose origin
/// was dropped (see `OpKind::CloneThen::orphan`).
pub fn orphan_clone(kind: &mut OpKind, rng: &mut Rng) {
  if let OpKind::CloneThen { orphan, .. } = kind {
    if orphan.is_none() && rng.chance(400) {
      let warm = match rng.below(8) {
        0 | 1 => OpKind::Source,
        2 => OpKind::Rope,
        3 => OpKind::Stream {
          columns: true,
          abort_at: None,
        },
        4 => OpKind::Map { columns: rng.chance(500) },
        5 => OpKind::Hash,
        6 => OpKind::Buffer,
        _ => OpKind::Size,
      };
      *orphan = Some(Box::new(warm));
    }
  }
}
