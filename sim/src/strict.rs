//! Strict, history-independent oracles over concurrent / sequential
//! histories: C14 (equality, hashing, cloning) and C10 (CachedSource
//! transparency). Every answer must equal the answer the same call gives on
//! a *cold* value — no union over orders is allowed here.

use std::collections::BTreeMap;

use crate::{
  conc::{gate_consistent, gen_op_kind_pub, ConcResult, Counters, JudgeCfg, Violation, FATAL},
  exec::Answer,
  gen::{self, fresh_cache_ids, gen_tree, is_ascii_tree, GenCfg, Ids},
  model::{content, line_lengths, Canon},
  props_c07::judge_written,
  rng::Rng,
  runner::{key_of, run_concurrent, run_sequential, Key, Knobs, Outcome, RunFlags, Scenario, TAIL_OPS},
  sched::Abort,
  spec::{ConcatHow, MapSpec, Op, OpKind, ReplCall, TreeSpec},
};

const NOT_FATAL: &[&str] = &[];

fn is_observer(k: &OpKind) -> bool {
  match k {
    OpKind::Source
    | OpKind::Buffer
    | OpKind::Size
    | OpKind::Rope
    | OpKind::Map { .. }
    | OpKind::Stream { .. }
    | OpKind::ToWriter { .. } => true,
    OpKind::CloneThen { then, .. } | OpKind::ChildFault { then, .. } => is_observer(then),
    _ => false,
  }
}

fn cached_inners(spec: &TreeSpec, out: &mut Vec<TreeSpec>) {
  match spec {
    TreeSpec::Concat { children, .. } => children.iter().for_each(|c| cached_inners(c, out)),
    TreeSpec::Replace { inner, .. } | TreeSpec::User { inner, .. } | TreeSpec::Boxed { inner } => {
      cached_inners(inner, out)
    }
    TreeSpec::Cached { inner, .. } => {
      out.push((**inner).clone());
      cached_inners(inner, out);
    }
    _ => {}
  }
}

/// Arithmetic-overflow panics in position bookkeeping only exist because the
/// harness builds with overflow checks; a shipped build wraps and reports a
/// wrong position instead. They are therefore judged like a positional
/// mismatch of a map / stream call, not like a crash.
pub fn is_overflow_panic(m: &str) -> bool {
  m.contains("with overflow")
}

/// Class of an op for judging: a clone-then-observe op is judged as the
/// observer it runs on the clone.
fn judge_class(k: &OpKind) -> &'static str {
  match k {
    OpKind::CloneThen { then, .. } | OpKind::ChildFault { then, .. } => judge_class(then),
    other => other.class(),
  }
}

pub fn is_positional_op(k: &OpKind) -> bool {
  match k {
    OpKind::Map { .. } | OpKind::Stream { .. } => true,
    OpKind::CloneThen { then, .. } | OpKind::ChildFault { then, .. } => is_positional_op(then),
    _ => false,
  }
}

/// Does the tree contain a composite (ReplaceSource with replacements,
/// ConcatSource with several children) above a CachedSource?
pub fn composite_over_cache(o: &TreeSpec) -> bool {
  o.contains(&|n| match n {
    TreeSpec::Replace { inner, calls, .. } if !calls.is_empty() => {
      inner.contains(&|m| matches!(m, TreeSpec::Cached { .. }))
    }
    TreeSpec::Concat { children, .. } if children.len() >= 2 => {
      children.iter().any(|c| c.contains(&|m| matches!(m, TreeSpec::Cached { .. })))
    }
    _ => false,
  })
}

/// File name -> source content, for the files that at least one mapped
/// segment refers to (a missing content counts as empty). Part of what a map
/// or a chunk stream tells about "the same file".
fn content_table(a: &Answer) -> Option<BTreeMap<String, String>> {
  match a {
    Answer::Map(Some(m)) => {
      let used: std::collections::BTreeSet<&str> =
        m.segs.iter().filter_map(|s| s.attr.as_ref().map(|a| a.file.as_str())).collect();
      let mut t = BTreeMap::new();
      for (i, name) in m.sources.iter().enumerate() {
        // an empty name cannot be told from the placeholder of an unused index
        if name.is_empty() {
          continue;
        }
        // the attribution's file name has sourceRoot applied; compare by suffix
        if used.iter().any(|u| u.ends_with(name.as_str())) {
          t.insert(name.clone(), m.sources_content.get(i).cloned().unwrap_or_default());
        }
      }
      Some(t)
    }
    Answer::Map(None) => Some(BTreeMap::new()),
    Answer::Stream(st) => {
      let used: std::collections::BTreeSet<&str> =
        st.segs.iter().filter_map(|s| s.attr.as_ref().map(|a| a.file.as_str())).collect();
      let mut t = BTreeMap::new();
      for (name, content) in st.sources.values() {
        if !name.is_empty() && used.contains(name.as_str()) {
          t.insert(name.clone(), content.clone().unwrap_or_default());
        }
      }
      Some(t)
    }
    _ => None,
  }
}

/// The canonical attribution with every *unmapped* run removed (and equal
/// neighbours merged again): where mapped runs start and what they point to.
/// Two answers that differ only in where a mapped run is *closed* are equal
/// under this view — that is exactly how ConcatSource's closing-segment
/// finding (K3) shows; a shifted or re-attributed mapped run is not.
fn mapped_only(k: &Key) -> Key {
  fn strip(c: &Canon) -> Canon {
    match c {
      Canon::Full(lines) => Canon::Full(
        lines
          .iter()
          .map(|runs| {
            let mut out: Vec<(u32, Option<crate::model::Attr>)> = vec![];
            for r in runs.iter().filter(|r| r.1.is_some()) {
              if out.last().map_or(true, |l| l.1 != r.1) {
                out.push(r.clone());
              }
            }
            out
          })
          .collect(),
      ),
      other => other.clone(),
    }
  }
  match k {
    Key::Map(Some(c)) => Key::Map(Some(strip(c))),
    Key::Stream { text, end, canon: Some(c) } => Key::Stream {
      text: text.clone(),
      end: *end,
      canon: Some(strip(c)),
    },
    other => other.clone(),
  }
}

fn canon_is_empty(c: &Canon) -> bool {
  match c {
    Canon::Full(l) => l.iter().all(|r| r.is_empty()),
    Canon::Lines(l) => l.iter().all(|r| r.is_none()),
  }
}

/// Is `w` self-consistent *on its own* (no CachedSource code involved in the
/// judgement): its chunk stream reassembles to `source()`, reports true
/// positions and a true end, and attributes like its own `map()`?
/// Returns the name of the first predicate that fails.
pub fn w_self_inconsistency(w: &TreeSpec, shards: u64) -> Option<String> {
  let text = content(w).0;
  let ascii = is_ascii_tree(w);
  for columns in [true, false] {
    let m = OpKind::Map { columns };
    let s = OpKind::Stream {
      columns,
      abort_at: None,
    };
    let scn = Scenario {
      family: "w-gate".into(),
      objects: vec![w.clone()],
      threads: vec![vec![Op { obj: 0, kind: m.clone() }], vec![Op { obj: 0, kind: s.clone() }]],
    };
    let a = run_sequential(&scn, shards, &[(0, 0)], false, false);
    let b = run_sequential(&scn, shards, &[(1, 0)], false, false);
    let (ma, sa) = (&a.answers[0][0], &b.answers[1][0]);
    if ma.is_panic() || sa.is_panic() {
      return Some("wrapped tree panics".into());
    }
    if let Answer::Stream(st) = sa {
      if st.text != text {
        return Some(format!("stream text differs from source() (columns={})", columns));
      }
      // exact recomputation of positions from the text
      let mut off = 0usize;
      let starts: Vec<usize> = {
        let mut v = vec![0usize];
        for (i, b) in text.bytes().enumerate() {
          if b == b'\n' {
            v.push(i + 1);
          }
        }
        v
      };
      for (gl, gc, len) in &st.chunk_pos {
        let li = match starts.binary_search(&off) {
          Ok(i) => i,
          Err(i) => i - 1,
        };
        let true_pos = (li as u32 + 1, (off - starts[li]) as u32);
        if ascii && (*gl, *gc) != true_pos {
          return Some(format!("a chunk reports position {}:{} but starts at {}:{} (columns={})", gl, gc, true_pos.0, true_pos.1, columns));
        }
        off += *len as usize;
      }
      let lens = line_lengths(&text);
      let true_end = if text.ends_with('\n') {
        (lens.len() as u32 + 1, 0)
      } else {
        (lens.len().max(1) as u32, lens.last().copied().unwrap_or(0))
      };
      if ascii && st.end != true_end {
        return Some(format!("stream reports end {:?} but the text ends at {:?} (columns={})", st.end, true_end, columns));
      }
    }
    if ascii {
      let km = key_of(ma, &m, &text, true, true);
      let ks = key_of(sa, &s, &text, true, true);
      match (&km, &ks) {
        (Key::Map(Some(cm)), Key::Stream { canon: Some(cs), .. }) => {
          if cm != cs {
            return Some(format!("map() and the chunk stream attribute differently (columns={})", columns));
          }
        }
        (Key::MapNone, Key::Stream { canon: Some(cs), .. }) => {
          if !canon_is_empty(cs) {
            return Some(format!("map() is None but the chunk stream carries mappings (columns={})", columns));
          }
        }
        _ => {}
      }
    }
  }
  None
}

#[derive(Clone, Copy, PartialEq, Eq, Debug)]
pub enum StrictMode {
  C14,
  C10,
}

/// Which cold call defines the expected answer of `op`.
/// The same tree with every CachedSource replaced by what it wraps.
pub fn uncache(t: &TreeSpec) -> TreeSpec {
  match t {
    TreeSpec::Cached { inner, .. } => uncache(inner),
    TreeSpec::Concat { children, how } => TreeSpec::Concat {
      children: children.iter().map(uncache).collect(),
      how: how.clone(),
    },
    TreeSpec::Replace { inner, calls, observe_at } => TreeSpec::Replace {
      inner: Box::new(uncache(inner)),
      calls: calls.clone(),
      observe_at: *observe_at,
    },
    TreeSpec::User { inner, id } => TreeSpec::User {
      inner: Box::new(uncache(inner)),
      id: *id,
    },
    TreeSpec::Boxed { inner } => TreeSpec::Boxed {
      inner: Box::new(uncache(inner)),
    },
    leaf => leaf.clone(),
  }
}

fn is_direct(o: &TreeSpec) -> bool {
  matches!(o, TreeSpec::Cached { .. }) || matches!(o, TreeSpec::Boxed { inner } if matches!(**inner, TreeSpec::Cached { .. }))
}

/// C10: the object whose cold answer defines what `obj` must answer: the
/// wrapped tree (object 0) for the wrapper and its clones; for a parent
/// composite its *uncached twin* (the same composite over the wrapped tree
/// itself) when the scenario carries one; `None`: a disturber, not judged.
fn c10_reference(objects: &[TreeSpec], obj: usize) -> Option<usize> {
  if obj == 0 {
    return Some(0);
  }
  if is_direct(&objects[obj]) {
    return Some(0);
  }
  let want = uncache(&objects[obj]);
  (1..objects.len()).find(|j| *j != obj && !objects[*j].contains(&|n| matches!(n, TreeSpec::Cached { .. })) && objects[*j] == want)
}

/// Which cold call defines the expected answer of `op`.
fn expectation(mode: StrictMode, objects: &[TreeSpec], op: &Op) -> Op {
  match mode {
    StrictMode::C14 => op.clone(),
    StrictMode::C10 => {
      if is_observer(&op.kind) {
        Op {
          obj: c10_reference(objects, op.obj).unwrap_or(0),
          kind: op.kind.clone(),
        }
      } else {
        op.clone()
      }
    }
  }
}

fn strip_abort(k: &OpKind) -> OpKind {
  match k {
    OpKind::Stream { columns, .. } => OpKind::Stream {
      columns: *columns,
      abort_at: None,
    },
    OpKind::CloneThen { then, orphan } => OpKind::CloneThen {
      then: Box::new(strip_abort(then)),
      orphan: orphan.clone(),
    },
    OpKind::ChildFault { then, .. } => strip_abort(then),
    other => other.clone(),
  }
}

pub fn check_strict(
  mode: StrictMode,
  scn: &Scenario,
  knobs: &Knobs,
  replay: Option<Vec<(u64, usize)>>,
  cfg: &JudgeCfg,
) -> ConcResult {
  let mut violations = vec![];
  let mut counters = Counters::default();
  let texts: Vec<(String, Vec<u8>)> = scn.objects.iter().map(content).collect();
  let ascii: Vec<bool> = scn.objects.iter().map(is_ascii_tree).collect();
  let empty_outcome = || Outcome {
    answers: vec![],
    stats: Default::default(),
    tail: vec![],
    unsafe_fails: vec![],
    self_deadlocks: vec![],
  };

  // ---- gates -------------------------------------------------------------
  // C14: a wrapped tree whose cache paths disagree sequentially is C10's
  // finding; attribution is then not compared here.
  // C10: only the wrapped tree's *own* consistency is consulted (no
  // CachedSource code), and it only reclassifies a mismatch, never hides it.
  let mut gated = false;
  let mut inherited: Option<String> = None;
  match mode {
    StrictMode::C14 => {
      let mut inners = vec![];
      for o in &scn.objects {
        cached_inners(o, &mut inners);
      }
      inners.dedup();
      for w in &inners {
        if !gate_consistent(w, knobs.shards) {
          gated = true;
        }
      }
      if gated {
        counters.inc("gated_inconsistent_wrapped_tree");
      }
    }
    StrictMode::C10 => {
      inherited = w_self_inconsistency(&scn.objects[0], knobs.shards);
      if inherited.as_deref() == Some("wrapped tree panics") {
        counters.inc("baseline_panics");
        return ConcResult {
          violations,
          counters,
          outcome: empty_outcome(),
          skipped: Some("the wrapped tree's own map/stream panics".into()),
        };
      }
      if inherited.is_some() {
        counters.inc("wrapped_tree_not_self_consistent");
      }
    }
  }

  // ---- expected answers: each call alone on cold twins --------------------
  let mut cache: BTreeMap<String, Answer> = BTreeMap::new();
  let mut cold = |op: &Op, counters: &mut Counters| -> Answer {
    let op = Op {
      obj: op.obj,
      kind: strip_abort(&op.kind),
    };
    let k = serde_json::to_string(&op).unwrap();
    if let Some(a) = cache.get(&k) {
      return a.clone();
    }
    let one = Scenario {
      family: "cold".into(),
      objects: scn.objects.clone(),
      threads: vec![vec![op.clone()]],
    };
    let r = run_sequential(&one, knobs.shards, &[(0, 0)], false, false);
    if !r.unsafe_fails.is_empty() {
      counters.inc("precondition_in_cold_run");
    }
    let a = r.answers[0][0].clone();
    cache.insert(k, a.clone());
    a
  };
  let mut expected: Vec<Vec<Answer>> = vec![];
  for ops in &scn.threads {
    let mut row = vec![];
    for op in ops {
      let e = cold(&expectation(mode, &scn.objects, op), &mut counters);
      if e.is_panic() {
        counters.inc("baseline_panics");
        return ConcResult {
          violations,
          counters,
          outcome: empty_outcome(),
          skipped: Some(format!("cold call panics: {}", e.brief())),
        };
      }
      row.push(e);
    }
    expected.push(row);
  }

  // ---- C14: cold cross-checks between a, b (equal by construction), c ------
  if mode == StrictMode::C14 && scn.objects.len() >= 3 {
    // directed probe, the same in every case: a user-defined newtype source
    // compared behind `dyn` with the field it wraps
    match std::panic::catch_unwind(crate::spec::aliased_newtype_probe) {
      Ok(Some(d)) => violations.push(Violation {
        kind: "eq_without_equal_hash".into(),
        op_class: "eq".into(),
        detail: d,
      }),
      Ok(None) => counters.inc("probe:aliased_newtype_compared_behind_dyn"),
      Err(_) => {}
    }
    let ans = |cold: &mut dyn FnMut(&Op, &mut Counters) -> Answer, counters: &mut Counters, obj: usize, kind: OpKind| {
      cold(&Op { obj, kind }, counters)
    };
    let eq_ab = ans(&mut cold, &mut counters, 0, OpKind::Eq { other: 1 });
    let eq_ba = ans(&mut cold, &mut counters, 1, OpKind::Eq { other: 0 });
    if eq_ab != Answer::Bool(true) || eq_ba != Answer::Bool(true) {
      violations.push(Violation {
        kind: "constructor_equality".into(),
        op_class: "eq".into(),
        detail: format!("two values built by the same constructor calls compare {} / {}", eq_ab.brief(), eq_ba.brief()),
      });
    }
    let ha = ans(&mut cold, &mut counters, 0, OpKind::Hash);
    let hb = ans(&mut cold, &mut counters, 1, OpKind::Hash);
    if ha != hb {
      violations.push(Violation {
        kind: "eq_without_equal_hash".into(),
        op_class: "hash".into(),
        detail: format!("a == b but hash(a) = {} and hash(b) = {}", ha.brief(), hb.brief()),
      });
    }
    let ua = ans(&mut cold, &mut counters, 0, OpKind::UpdateHash);
    let ub = ans(&mut cold, &mut counters, 1, OpKind::UpdateHash);
    if ua != ub {
      violations.push(Violation {
        kind: "eq_without_equal_hash".into(),
        op_class: "hash".into(),
        detail: format!("a == b but update_hash(a) = {} and update_hash(b) = {}", ua.brief(), ub.brief()),
      });
    }
    let eq_ac = ans(&mut cold, &mut counters, 0, OpKind::Eq { other: 2 });
    let eq_ca = ans(&mut cold, &mut counters, 2, OpKind::Eq { other: 0 });
    if eq_ac != eq_ca {
      violations.push(Violation {
        kind: "asymmetric_equality".into(),
        op_class: "eq".into(),
        detail: format!("a == c is {} but c == a is {}", eq_ac.brief(), eq_ca.brief()),
      });
    }
    let pairs: Vec<(usize, &str)> = if eq_ac == Answer::Bool(true) {
      counters.inc("probe:edited_value_still_equal");
      vec![(1, "b"), (2, "c")]
    } else {
      vec![(1, "b")]
    };
    for (other, name) in pairs {
      if other == 2 {
        let hc = ans(&mut cold, &mut counters, 2, OpKind::Hash);
        if ha != hc {
          violations.push(Violation {
            kind: "eq_without_equal_hash".into(),
            op_class: "hash".into(),
            detail: format!("a == c but hash(a) = {} and hash(c) = {}", ha.brief(), hc.brief()),
          });
        }
      }
      for k in TAIL_OPS.iter() {
        let x = ans(&mut cold, &mut counters, 0, k.clone());
        let y = ans(&mut cold, &mut counters, other, k.clone());
        if x.is_panic() || y.is_panic() {
          continue;
        }
        let attribution = ascii[0] && ascii[other] && !gated;
        if gated && matches!(k, OpKind::Map { .. } | OpKind::Stream { .. }) {
          continue;
        }
        // equal values: the map's own fields (not positions) must agree too
        if let (Answer::Map(Some(mx)), Answer::Map(Some(my))) = (&x, &y) {
          let meta = |m: &crate::exec::MapAns| (m.file.clone(), m.source_root.clone(), m.debug_id.clone());
          if meta(mx) != meta(my) {
            violations.push(Violation {
              kind: "equal_values_answer_differently".into(),
              op_class: k.class().into(),
              detail: format!(
                "a == {} but {} gives (file, sourceRoot, debugId) = {:?} on a and {:?} on {}",
                name,
                k.label(),
                meta(mx),
                meta(my),
                name
              ),
            });
          }
        }
        if key_of(&x, k, &texts[0].0, attribution, ascii[0] && ascii[other]) != key_of(&y, k, &texts[other].0, attribution, ascii[0] && ascii[other]) {
          violations.push(Violation {
            kind: "equal_values_answer_differently".into(),
            op_class: k.class().into(),
            detail: format!("a == {} but {} answers {} on a and {} on {}", name, k.label(), x.brief(), y.brief(), name),
          });
        }
      }
    }
    if !violations.is_empty() {
      return ConcResult {
        violations,
        counters,
        outcome: empty_outcome(),
        skipped: None,
      };
    }
  }

  // ---- the history -------------------------------------------------------
  let flags = RunFlags {
    keep_trace: cfg.keep_trace,
    consume: false,
    fatal_events: if cfg.fatal_events { FATAL } else { NOT_FATAL },
    do_tail: true,
  };
  let outcome = run_concurrent(scn, knobs, replay, &flags);
  match &outcome.stats.abort {
    Some(Abort::Deadlock { waiting }) => violations.push(Violation {
      kind: "deadlock".into(),
      op_class: "schedule".into(),
      detail: format!("all live threads blocked: {}", waiting.join("; ")),
    }),
    Some(Abort::StepBudget { decisions }) => violations.push(Violation {
      kind: "no_progress".into(),
      op_class: "schedule".into(),
      detail: format!("step budget exhausted after {} decisions", decisions),
    }),
    Some(Abort::Event { name, site }) => violations.push(Violation {
      kind: "cache_replaced".into(),
      op_class: "map".into(),
      detail: format!("event {} at {}", name, site),
    }),
    None => {}
  }
  if !outcome.unsafe_fails.is_empty() {
    violations.push(Violation {
      kind: "precondition".into(),
      op_class: "unsafe".into(),
      detail: format!("unsafe precondition violated: {:?}", outcome.unsafe_fails),
    });
  }
  let aborted_run = outcome.stats.abort.is_some();

  if !outcome.self_deadlocks.is_empty() {
    violations.push(Violation {
      kind: "deadlock".into(),
      op_class: "schedule".into(),
      detail: format!("after the history a single-threaded call waits forever for a lock: {:?}", outcome.self_deadlocks),
    });
  }

  // A composite (ReplaceSource with replacements, ConcatSource with several
  // children) above a CachedSource sees different *chunk boundaries*
  // depending on whether the cache streams first-hand or replays from its
  // map (for columns=false one chunk per line; in final-source mode no
  // chunks at all). On the pinned tree the composites' attribution depends
  // on those boundaries (ReplaceSource re-splitting a line, ConcatSource's
  // closing segment). Attribution-only differences of such composites are a
  // recorded finding (DESIGN.md 7), not decided here.
  let replace_over_cache: Vec<bool> = scn.objects.iter().map(composite_over_cache).collect();
  // C10: objects whose root is the cache itself (the wrapper and its clones)
  // C10: objects that are judged: the wrapper and its clones (against the
  // wrapped tree) and parent composites that have an uncached twin in the
  // scenario (against that twin). Other parents and the reference objects
  // themselves are not judged.
  let direct: Vec<bool> = (0..scn.objects.len())
    .map(|i| {
      i != 0
        && scn.objects[i].contains(&|n| matches!(n, TreeSpec::Cached { .. }))
        && c10_reference(&scn.objects, i).is_some()
    })
    .collect();
  // which object the op being judged ran on (set by the callers below): the
  // composite-over-cache classification is per object (for C10 also when the
  // wrapped tree itself, object 0, contains such a composite)
  let judged_obj = std::cell::Cell::new(0usize);
  let w_can_be_inconsistent = scn.objects[0].contains(&|n| match n {
    TreeSpec::Replace { calls, .. } => !calls.is_empty(),
    TreeSpec::Concat { children, .. } => children.len() >= 2,
    TreeSpec::SourceMap { inner, .. } => inner.as_ref().is_some_and(|i| i.inner_map.is_some()),
    TreeSpec::User { .. } => true,
    _ => false,
  });
  // (Judging simple parents' *positional* answers against their uncached
  // twins was tried: 12 of 400 k runs on the unchanged tree differ, all through
  // ConcatSource's closing-segment logic when the cached child stops
  // delivering an unmapped first chunk — the recorded finding K3. So a
  // parent's positional differences stay in that class; its text, bytes and
  // sizes are judged.)
  // A *judged parent* (a simple ConcatSource of leaves and clones of the cache
  // that has an uncached twin in the scenario) is excused only for
  // differences in where mapped runs are closed (`mapped_only` view equal);
  // `beyond_closing` is set by the callers when the difference survives that view.
  let beyond_closing = std::cell::Cell::new(false);
  let fragile_obj = |o: usize| {
    let judged_parent = mode == StrictMode::C10 && o != 0 && !is_direct(&scn.objects[o]) && c10_reference(&scn.objects, o).is_some();
    if judged_parent && beyond_closing.get() {
      return false;
    }
    replace_over_cache[o] || (mode == StrictMode::C10 && replace_over_cache[0])
  };
  let mut mismatch = |violations: &mut Vec<Violation>, counters: &mut Counters, class: &str, attribution_only: bool, detail: String| {
    // Positional differences of a composite above a cache; for C10 also the
    // *text* of a replayed stream over such a wrapped tree (the replay cuts
    // the text at the positions of a map that the tree produced in another
    // state of its inner cache).
    let garbled_replay = !attribution_only && mode == StrictMode::C10 && class == "stream";
    if (attribution_only || garbled_replay) && fragile_obj(judged_obj.get()) && (class == "map" || class == "stream") {
      counters.inc("composite_over_cache_positions");
      violations.push(Violation {
        kind: "composite_over_cache_positions".into(),
        op_class: class.into(),
        detail,
      });
      return;
    }
    let kind = match (mode, &inherited, attribution_only) {
      // The recorded finding covers wrapped trees that contain a ReplaceSource
      // with replacements, a ConcatSource with several children, a
      // SourceMapSource with an inner map, or a user-defined source: only
      // those are ever inconsistent on the pinned tree. A plain leaf that
      // disagrees with itself is a new defect and is reported as such.
      (StrictMode::C10, Some(_), true) if w_can_be_inconsistent => {
        counters.inc("mismatch_over_inconsistent_wrapped_tree");
        "inherited_inconsistency"
      }
      // The replay path cuts the text at the cached map's positions; when the
      // wrapped tree's own positions are untrue the replayed chunk *text* is
      // garbled too (duplicated / dropped pieces). Only a stream's text can be
      // affected that way; source(), buffer(), size(), to_writer(), hash are
      // never excused.
      (StrictMode::C10, Some(_), false) if class == "stream" && w_can_be_inconsistent => {
        counters.inc("mismatch_over_inconsistent_wrapped_tree");
        counters.inc("replayed_text_garbled_over_inconsistent_wrapped_tree");
        "inherited_inconsistency"
      }
      (StrictMode::C10, _, _) => "not_transparent",
      (StrictMode::C14, _, _) => "history_dependent_answer",
    };
    let detail = match (&inherited, kind) {
      (Some(why), "inherited_inconsistency") => format!("{} [wrapped tree is not self-consistent: {}]", detail, why),
      _ => detail,
    };
    violations.push(Violation {
      kind: kind.into(),
      op_class: class.into(),
      detail,
    });
  };

  for (t, ops) in scn.threads.iter().enumerate() {
    for (i, op) in ops.iter().enumerate() {
      let a = &outcome.answers[t][i];
      if matches!(a, Answer::NotRun | Answer::Aborted { .. }) {
        if matches!(a, Answer::Aborted { chunks_before: u32::MAX }) {
          counters.inc("fault:collaborator_unwind_fired");
        } else if matches!(a, Answer::Aborted { .. }) {
          counters.inc("fault:stream_cancelled_fired");
        }
        continue;
      }
      let who = format!("T{} op{} {} on object {}", t, i, op.kind.label(), op.obj);
      judged_obj.set(op.obj);
      if mode == StrictMode::C10 && !direct[op.obj] {
        // a composite that contains a clone of the cache: a disturber that
        // fills the cache's internal (final-source) entries; its own answers
        // are not C10's subject
        continue;
      }
      if let Answer::Panicked(m) = a {
        if aborted_run {
          continue;
        }
        let fragile_panic = is_positional_op(&op.kind)
          && fragile_obj(op.obj)
          && !m.contains("PoisonError")
          && !m.contains("rspack_sources_verif: precondition");
        if fragile_panic {
          // a composite above a re-chunking cache slices its input at
          // positions computed for other chunk boundaries: recorded finding
          mismatch(
            &mut violations,
            &mut counters,
            judge_class(&op.kind),
            true,
            format!("{} panics although the same call on a cold value returns: {}", who, m),
          );
          continue;
        }
        if is_overflow_panic(m) && is_positional_op(&op.kind) {
          let eobj = expectation(mode, &scn.objects, op).obj;
          if !gated && ascii[op.obj] && ascii[eobj] {
            mismatch(
              &mut violations,
              &mut counters,
              judge_class(&op.kind),
              true,
              format!("{} overflows its position arithmetic (a wrong position in a build without overflow checks) although the same call on a cold value returns: {}", who, m),
            );
          }
          continue;
        }
        violations.push(Violation {
          kind: if m.contains("rspack_sources_verif: precondition") { "precondition".into() } else { "panic".into() },
          op_class: op.kind.class().into(),
          detail: format!("{} panicked although the same call on a cold value returns: {}", who, m),
        });
        continue;
      }
      let e = &expected[t][i];
      let inner_kind = match op.kind.without_fault() {
        OpKind::CloneThen { then, .. } => then.without_fault().clone(),
        k => k.clone(),
      };
      if let OpKind::ToWriter { plan } = &inner_kind {
        if let Answer::Written { io, .. } = a {
          counters.add("fault:short_write_fired", io.short_writes);
          counters.add("fault:eintr_fired", io.eintr);
          counters.add("fault:hard_write_error_fired", io.hard_errors);
        }
        let eobj = expectation(mode, &scn.objects, op).obj;
        if let Some(d) = judge_written(a, plan, &texts[eobj].1) {
          mismatch(&mut violations, &mut counters, "to_writer", false, format!("{}: {}", who, d));
        }
        continue;
      }
      let eobj = expectation(mode, &scn.objects, op).obj;
      let attribution = ascii[op.obj] && ascii[eobj] && !gated;
      if gated && matches!(inner_kind, OpKind::Map { .. } | OpKind::Stream { .. }) {
        // a cache over a sequentially inconsistent tree: C10's finding
        continue;
      }
      let kind_for_key = strip_abort(&op.kind);
      // 1. everything that is not positional (text, bytes, sizes, hashes, booleans)
      let ka = key_of(a, &kind_for_key, &texts[op.obj].0, false, false);
      let ke = key_of(e, &kind_for_key, &texts[eobj].0, false, false);
      if ka != ke {
        mismatch(
          &mut violations,
          &mut counters,
          judge_class(&op.kind),
          false,
          format!("{} answered {} but the same call on a cold value answers {}", who, a.brief(), e.brief()),
        );
        continue;
      }
      // 2. positional information: end of the generated text, attribution
      if ascii[op.obj] && ascii[eobj] {
        let ka = key_of(a, &kind_for_key, &texts[op.obj].0, attribution, true);
        let ke = key_of(e, &kind_for_key, &texts[eobj].0, attribution, true);
        if ka != ke {
          beyond_closing.set(mapped_only(&ka) != mapped_only(&ke));
          mismatch(
            &mut violations,
            &mut counters,
            judge_class(&op.kind),
            true,
            format!("{} reports positions (end / attribution) differently from the same call on a cold value: got {} expected {}", who, a.brief(), e.brief()),
          );
          beyond_closing.set(false);
        } else if attribution && mode == StrictMode::C10 {
          if let (Some(ta), Some(te)) = (content_table(a), content_table(e)) {
            // only files that both answers attribute to (a lines-only map
            // legitimately mentions fewer files than a full one)
            let differs = ta.iter().any(|(f, c)| te.get(f).is_some_and(|c2| c2 != c));
            if differs {
              counters.inc("probe:sources_content_differs");
              mismatch(
                &mut violations,
                &mut counters,
                judge_class(&op.kind),
                true,
                format!("{} pairs the files it attributes to with other source contents than the same call on a cold value: got {:?} expected {:?}", who, ta, te),
              );
            }
          }
        }
      }
    }
  }

  // after the history every observer still answers like a cold value
  if !aborted_run {
    for (o, answers) in outcome.tail.iter().enumerate() {
      for (k, a) in answers.iter().enumerate() {
        let top = Op {
          obj: o,
          kind: TAIL_OPS[k].clone(),
        };
        let e = cold(&expectation(mode, &scn.objects, &top), &mut counters);
        if e.is_panic() {
          continue;
        }
        let who = format!("after the history, {} on object {}", TAIL_OPS[k].label(), o);
        judged_obj.set(o);
        if mode == StrictMode::C10 && !direct[o] {
          continue;
        }
        if let Answer::Panicked(m) = a {
          if is_positional_op(&TAIL_OPS[k])
            && fragile_obj(o)
            && !m.contains("PoisonError")
            && !m.contains("rspack_sources_verif: precondition")
          {
            mismatch(
              &mut violations,
              &mut counters,
              TAIL_OPS[k].class(),
              true,
              format!("{} panics although a cold value answers: {}", who, m),
            );
            continue;
          }
          if is_overflow_panic(m) && is_positional_op(&TAIL_OPS[k]) {
            let eobj = expectation(mode, &scn.objects, &top).obj;
            if !gated && ascii[o] && ascii[eobj] {
              mismatch(
                &mut violations,
                &mut counters,
                TAIL_OPS[k].class(),
                true,
                format!("{} overflows its position arithmetic (a wrong position in a build without overflow checks): {}", who, m),
              );
            }
            continue;
          }
          violations.push(Violation {
            kind: "panic_after_run".into(),
            op_class: TAIL_OPS[k].class().into(),
            detail: format!("{} panicked: {}", who, m),
          });
          continue;
        }
        let eobj = expectation(mode, &scn.objects, &top).obj;
        let attribution = ascii[o] && ascii[eobj] && !gated;
        if gated && matches!(TAIL_OPS[k], OpKind::Map { .. } | OpKind::Stream { .. }) {
          continue;
        }
        let ka = key_of(a, &TAIL_OPS[k], &texts[o].0, false, false);
        let ke = key_of(&e, &TAIL_OPS[k], &texts[eobj].0, false, false);
        if ka != ke {
          mismatch(&mut violations, &mut counters, TAIL_OPS[k].class(), false, format!("{} answers {} but a cold value answers {}", who, a.brief(), e.brief()));
        } else if ascii[o]
          && ascii[eobj]
          && key_of(a, &TAIL_OPS[k], &texts[o].0, attribution, true)
            != key_of(&e, &TAIL_OPS[k], &texts[eobj].0, attribution, true)
        {
          beyond_closing.set(
            mapped_only(&key_of(a, &TAIL_OPS[k], &texts[o].0, attribution, true))
              != mapped_only(&key_of(&e, &TAIL_OPS[k], &texts[eobj].0, attribution, true)),
          );
          mismatch(
            &mut violations,
            &mut counters,
            TAIL_OPS[k].class(),
            true,
            format!(
              "{} reports positions (end / attribution) differently from a cold value: got {} expected {}; canonical got {:?} expected {:?}",
              who,
              a.brief(),
              e.brief(),
              key_of(a, &TAIL_OPS[k], &texts[o].0, attribution, true),
              key_of(&e, &TAIL_OPS[k], &texts[eobj].0, attribution, true)
            ),
          );
          beyond_closing.set(false);
        }
      }
    }
  }

  let st = &outcome.stats;
  counters.add("decisions", st.decisions);
  counters.add("switches", st.switches);
  for (k, v) in &st.blocked {
    counters.add(&format!("blocked:{}", k), *v);
  }
  for (k, v) in &st.events {
    counters.add(&format!("event:{}", k), *v);
  }
  if mode == StrictMode::C10 && scn.threads.len() == 1 {
    // which cache states did this plain history walk through?
    let mut filled_by: BTreeMap<bool, &str> = BTreeMap::new(); // columns -> first filler
    let mut aborted_first: BTreeMap<bool, bool> = BTreeMap::new();
    for (i, op) in scn.threads[0].iter().enumerate() {
      let inner = match op.kind.without_fault() {
        OpKind::CloneThen { then, .. } => then.without_fault().clone(),
        k => k.clone(),
      };
      let was_aborted = matches!(outcome.answers[0][i], Answer::Aborted { .. });
      match inner {
        OpKind::Map { columns } => {
          match filled_by.get(&columns) {
            None => {
              filled_by.insert(columns, "map");
              if filled_by.contains_key(&!columns) {
                counters.inc("probe:cold_call_after_other_column_setting_was_cached");
              }
            }
            Some(&"stream") => counters.inc("probe:map_served_from_stream_filled_cache"),
            Some(_) => counters.inc("probe:map_served_from_map_filled_cache"),
          }
        }
        OpKind::Stream { columns, .. } => {
          match filled_by.get(&columns) {
            None => {
              if was_aborted {
                aborted_first.insert(columns, true);
                counters.inc("probe:first_stream_cancelled_on_cold_cache");
              } else {
                filled_by.insert(columns, "stream");
                if aborted_first.get(&columns) == Some(&true) {
                  counters.inc("probe:fill_after_cancelled_fill");
                }
                if filled_by.contains_key(&!columns) {
                  counters.inc("probe:cold_call_after_other_column_setting_was_cached");
                }
              }
            }
            Some(&"map") => counters.inc("probe:stream_replayed_from_map_filled_cache"),
            Some(_) => counters.inc("probe:stream_replayed_from_stream_filled_cache"),
          }
        }
        _ => {}
      }
    }
  }
  if scn.threads.len() == 1 {
    counters.inc("population:single_thread_histories");
  } else {
    counters.inc("population:multi_thread_histories");
  }
  ConcResult {
    violations,
    counters,
    outcome,
    skipped: None,
  }
}

pub fn check_c14(scn: &Scenario, knobs: &Knobs, replay: Option<Vec<(u64, usize)>>, cfg: &JudgeCfg) -> ConcResult {
  check_strict(StrictMode::C14, scn, knobs, replay, cfg)
}

pub fn check_c10(scn: &Scenario, knobs: &Knobs, replay: Option<Vec<(u64, usize)>>, cfg: &JudgeCfg) -> ConcResult {
  check_strict(StrictMode::C10, scn, knobs, replay, cfg)
}

// ---------------------------------------------------------------------------
// generators
// ---------------------------------------------------------------------------

/// One edit away from `t`: a leaf text, a file name, a replacement field, a
/// child, an attached map, or the node type.
pub fn edit_tree(rng: &mut Rng, t: &TreeSpec) -> TreeSpec {
  fn edit_map(rng: &mut Rng, m: &MapSpec) -> MapSpec {
    let mut m = m.clone();
    // "present but all empty" vs "absent" sourcesContent: a different value
    // that serialises to the same document
    if m.sources_content.iter().all(|c| c.is_empty()) && rng.chance(250) {
      if m.sources_content.is_empty() {
        m.sources_content.push(String::new());
      } else {
        m.sources_content.clear();
      }
      return m;
    }
    match rng.below(7) {
      6 => m.debug_id = Some(m.debug_id.clone().map_or("DBG-2".into(), |f| f + "x")),
      0 => m.mappings.push_str(";AAAA"),
      1 => m.sources.push("extra.js".into()),
      2 => m.names.push("extra".into()),
      3 => m.file = Some(m.file.clone().map_or("f.js".into(), |f| f + "x")),
      4 => m.sources_content.push("content".into()),
      _ => m.source_root = Some(m.source_root.clone().map_or("root".into(), |f| f + "x")),
    }
    m
  }
  match t {
    TreeSpec::Raw { text } => match rng.below(3) {
      0 => TreeSpec::RawString { text: text.clone() },
      1 => TreeSpec::RawBytes { bytes: text.as_bytes().to_vec() },
      _ => TreeSpec::Raw { text: format!("{}z", text) },
    },
    TreeSpec::RawString { text } => {
      if rng.chance(400) {
        TreeSpec::Raw { text: text.clone() }
      } else {
        TreeSpec::RawString { text: format!("{}z", text) }
      }
    }
    TreeSpec::RawBytes { bytes } => match rng.below(4) {
      // the string variant holding exactly the lossy decoding of the bytes
      3 => TreeSpec::Raw { text: String::from_utf8_lossy(bytes).into_owned() },
      0 => TreeSpec::RawBuffer { bytes: bytes.clone() },
      1 => {
        let mut b = bytes.clone();
        b.push(b'z');
        TreeSpec::RawBytes { bytes: b }
      }
      _ => {
        // different bytes with the same lossy decoding where possible
        let mut b = bytes.clone();
        b.push(0xff);
        TreeSpec::RawBytes { bytes: b }
      }
    },
    TreeSpec::RawBuffer { bytes } => {
      if rng.chance(400) {
        TreeSpec::RawBytes { bytes: bytes.clone() }
      } else {
        let mut b = bytes.clone();
        b.push(if rng.chance(500) { b'z' } else { 0xfe });
        TreeSpec::RawBuffer { bytes: b }
      }
    }
    TreeSpec::Original { text, name } => match rng.below(3) {
      0 => TreeSpec::Original { text: format!("{}z", text), name: name.clone() },
      1 => TreeSpec::Original { text: text.clone(), name: format!("{}x", name) },
      _ => TreeSpec::Raw { text: text.clone() },
    },
    TreeSpec::SourceMap { text, name, map, inner } => match rng.below(4) {
      0 => TreeSpec::SourceMap { text: format!("{}z", text), name: name.clone(), map: map.clone(), inner: inner.clone() },
      1 => TreeSpec::SourceMap { text: text.clone(), name: format!("{}x", name), map: map.clone(), inner: inner.clone() },
      2 => TreeSpec::SourceMap { text: text.clone(), name: name.clone(), map: edit_map(rng, map), inner: inner.clone() },
      _ => {
        // edit one of the options of the full constructor (also when there
        // is no inner map: the fields are then unused by every observer)
        let mut i = inner.clone().unwrap_or(crate::spec::InnerMapSpec {
          original_source: None,
          inner_map: None,
          remove_original_source: false,
        });
        match rng.below(3) {
          0 => i.remove_original_source = !i.remove_original_source,
          1 => match &i.inner_map {
            Some(m) => i.inner_map = Some(edit_map(rng, m)),
            None => i.original_source = Some(i.original_source.clone().map_or("o".into(), |o| o + "z")),
          },
          _ => i.original_source = Some(i.original_source.clone().map_or("o".into(), |o| o + "z")),
        }
        TreeSpec::SourceMap { text: text.clone(), name: name.clone(), map: map.clone(), inner: Some(i) }
      }
    },
    TreeSpec::Concat { children, how } => {
      if children.is_empty() || rng.chance(250) {
        let mut k = children.clone();
        k.push(TreeSpec::Raw { text: "z".into() });
        TreeSpec::Concat { children: k, how: how.clone() }
      } else if rng.chance(200) && children.len() > 1 {
        let mut k = children.clone();
        k.swap(0, 1);
        if k == *children {
          k.push(TreeSpec::Raw { text: "z".into() });
        }
        TreeSpec::Concat { children: k, how: how.clone() }
      } else {
        let i = rng.usize_below(children.len());
        let mut k = children.clone();
        k[i] = edit_tree(rng, &children[i]);
        TreeSpec::Concat { children: k, how: how.clone() }
      }
    }
    TreeSpec::Replace { inner, calls, .. } => {
      if calls.is_empty() || rng.chance(300) {
        if rng.chance(500) {
          TreeSpec::Replace { inner: Box::new(edit_tree(rng, inner)), calls: calls.clone(), observe_at: None }
        } else {
          let mut k = calls.clone();
          k.push(ReplCall { start: 0, end: 0, content: "z".into(), name: None, enforce: None, via_insert: false });
          TreeSpec::Replace { inner: inner.clone(), calls: k, observe_at: None }
        }
      } else {
        let i = rng.usize_below(calls.len());
        let mut k = calls.clone();
        match rng.below(5) {
          0 => k[i].content.push('z'),
          1 => k[i].name = Some(k[i].name.clone().map_or("nm".into(), |n| n + "x")),
          2 => {
            k[i].enforce = match k[i].enforce_rank() {
              0 => Some(crate::spec::Enforce::Post),
              1 => Some(crate::spec::Enforce::Pre),
              _ => Some(crate::spec::Enforce::Normal),
            }
          }
          3 => {
            // same multiset of replacements in another insertion order
            if k.len() > 1 {
              k.swap(0, i.max(1));
              if k == *calls {
                k[i].content.push('z');
              }
            } else {
              k[i].content.push('z');
            }
          }
          _ => {
            k.remove(i);
          }
        }
        TreeSpec::Replace { inner: inner.clone(), calls: k, observe_at: None }
      }
    }
    TreeSpec::Cached { inner, cache_id } => {
      if rng.chance(250) {
        (**inner).clone()
      } else {
        TreeSpec::Cached { inner: Box::new(edit_tree(rng, inner)), cache_id: *cache_id }
      }
    }
    TreeSpec::User { inner, id } => {
      if rng.chance(300) {
        TreeSpec::User { inner: inner.clone(), id: id + 1000 }
      } else {
        TreeSpec::User { inner: Box::new(edit_tree(rng, inner)), id: *id }
      }
    }
    TreeSpec::Boxed { inner } => {
      if rng.chance(300) {
        (**inner).clone()
      } else {
        TreeSpec::Boxed { inner: Box::new(edit_tree(rng, inner)) }
      }
    }
  }
}

/// The same constructor program without observer calls in between.
pub fn strip_observations(t: &TreeSpec) -> TreeSpec {
  match t {
    TreeSpec::Concat { children, how } => TreeSpec::Concat {
      children: children.iter().map(strip_observations).collect(),
      how: match how {
        ConcatHow::AddObserved => ConcatHow::NestedTyped,
        ConcatHow::AddHeld => ConcatHow::AddTyped,
        h => h.clone(),
      },
    },
    TreeSpec::Replace { inner, calls, .. } => TreeSpec::Replace {
      inner: Box::new(strip_observations(inner)),
      calls: calls.clone(),
      observe_at: None,
    },
    TreeSpec::Cached { inner, cache_id } => TreeSpec::Cached {
      inner: Box::new(strip_observations(inner)),
      cache_id: *cache_id,
    },
    TreeSpec::User { inner, id } => TreeSpec::User {
      inner: Box::new(strip_observations(inner)),
      id: *id,
    },
    TreeSpec::Boxed { inner } => TreeSpec::Boxed {
      inner: Box::new(strip_observations(inner)),
    },
    leaf => leaf.clone(),
  }
}

pub fn gen_c14(rng: &mut Rng) -> Scenario {
  let ascii = rng.chance(600);
  let mut cfg = GenCfg::small(ascii);
  cfg.max_nodes = 6;
  let mut ids = Ids::new();
  let mut budget = cfg.max_nodes;
  let p = if rng.chance(250) {
    gen::gen_leaf(rng, &cfg)
  } else {
    gen_tree(rng, &cfg, &mut ids, cfg.max_depth, &mut budget)
  };
  let mut m = BTreeMap::new();
  // b = the same constructor calls *without* the observations that P makes
  // while it is being built (an observer call is not a constructor call)
  let b = fresh_cache_ids(&strip_observations(&p), &mut ids, &mut m);
  let mut m2 = BTreeMap::new();
  let mut edited = edit_tree(rng, &p);
  for _ in 0..5 {
    if crate::model::in_domain(&edited) && edited != p {
      break;
    }
    edited = edit_tree(rng, &p);
  }
  if !crate::model::in_domain(&edited) || edited == p {
    edited = TreeSpec::Concat {
      children: vec![p.clone(), TreeSpec::Raw { text: "z".into() }],
      how: ConcatHow::New,
    };
  }
  let c = fresh_cache_ids(&edited, &mut ids, &mut m2);
  let objects = vec![p, b, c];
  let n_threads = match rng.below(10) {
    0..=4 => 1,
    5..=8 => 2,
    _ => 3,
  };
  let mut threads = vec![];
  for _ in 0..n_threads {
    let n_ops = 1 + rng.usize_below(if crate::rng::deep() { 8 } else { 5 });
    let mut ops = vec![];
    for _ in 0..n_ops {
      let obj = *rng.pick(&[0usize, 0, 0, 1, 1, 2]);
      let edit_clone = match (&objects[obj], rng.chance(120)) {
        (TreeSpec::Replace { inner, calls, .. }, true) => {
          let text = content(inner).0;
          let call = gen::gen_call(rng, &text, ascii, calls);
          Some(OpKind::CloneEditObserve {
            call,
            then: Box::new(if rng.chance(500) { OpKind::Source } else { OpKind::Hash }),
          })
        }
        _ => None,
      };
      if let Some(kind) = edit_clone {
        ops.push(Op { obj, kind });
        continue;
      }
      let kind = match rng.below(100) {
        0..=14 => OpKind::Eq { other: *rng.pick(&[0usize, 1, 1, 2]) },
        15..=21 => OpKind::Hash,
        22..=24 => OpKind::UpdateHash,
        25..=31 => OpKind::EqClone,
        32..=38 => OpKind::Lookup { probe: *rng.pick(&[0usize, 1, 1, 2]) },
        39..=44 => OpKind::CloneThen { then: Box::new(OpKind::Hash), orphan: None },
        _ => gen_op_kind_pub(rng, 3, true),
      };
      ops.push(Op { obj, kind });
    }
    threads.push(ops);
  }
  Scenario {
    family: "c14".into(),
    objects,
    threads,
  }
}

pub fn gen_c10(rng: &mut Rng) -> Scenario {
  // the wrapped tree: ASCII (the property's quantifier)
  let mut cfg = GenCfg::small(true);
  cfg.allow_binary = false;
  cfg.max_nodes = 6;
  let mut ids = Ids::new();
  let mut budget = cfg.max_nodes;
  let w = match rng.below(10) {
    0 | 1 => gen::gen_leaf(rng, &cfg),
    2 => {
      // a user-defined source directly under the cache
      TreeSpec::User {
        inner: Box::new(gen_tree(rng, &cfg, &mut ids, 2, &mut budget)),
        id: ids.user(),
      }
    }
    3 => TreeSpec::Concat {
      children: (0..2 + rng.usize_below(2)).map(|_| gen::gen_leaf(rng, &cfg)).collect(),
      how: ConcatHow::New,
    },
    _ => gen_tree(rng, &cfg, &mut ids, cfg.max_depth, &mut budget),
  };
  let cache_id = ids.cache();
  let cached = TreeSpec::Cached {
    inner: Box::new(w.clone()),
    cache_id,
  };
  let n_clones = rng.usize_below(3);
  let mut objects = vec![w];
  for _ in 0..=n_clones {
    objects.push(cached.clone());
  }
  // 40 %: a parent composite that contains a clone of the cache. Calls on it
  // reach the cache with the crate-internal final-source option keys, which
  // no direct call can; its own answers are not judged (disturber).
  if rng.chance(400) {
    let sibling = gen::gen_leaf(rng, &cfg);
    let parent = match rng.below(4) {
      0 => TreeSpec::Concat {
        children: vec![cached.clone(), sibling],
        how: ConcatHow::New,
      },
      1 => TreeSpec::Concat {
        children: vec![sibling, cached.clone()],
        how: ConcatHow::AddLater,
      },
      2 => TreeSpec::Concat {
        children: vec![cached.clone(), cached.clone()],
        how: ConcatHow::New,
      },
      _ => {
        let text = content(&cached).0;
        TreeSpec::Replace {
          inner: Box::new(cached.clone()),
          calls: gen::gen_calls(rng, &text, 2, true),
          observe_at: None,
        }
      }
    };
    // a simple parent (ConcatSource of leaves and clones of the cache over a
    // wrapped tree without ReplaceSource / inner caches) is *judged* against
    // its uncached twin, which is added right behind it
    let simple_w = !objects[0].contains(&|n| matches!(n, TreeSpec::Replace { .. } | TreeSpec::Cached { .. } | TreeSpec::User { .. }));
    let simple_parent = matches!(&parent, TreeSpec::Concat { .. });
    let twin = uncache(&parent);
    objects.push(parent);
    if simple_w && simple_parent {
      objects.push(twin);
    }
  }
  let n_cached_objs = objects[1..]
    .iter()
    .filter(|o| o.contains(&|n| matches!(n, TreeSpec::Cached { .. })))
    .count();
  let n_threads = match rng.below(10) {
    0..=5 => 1,
    6..=8 => 2,
    _ => 3,
  };
  let total_ops = 1 + rng.usize_below(if crate::rng::deep() { 14 } else { 8 });
  let mut threads: Vec<Vec<Op>> = vec![vec![]; n_threads];
  // bias towards the four cache states per option set and alternating columns
  let c0 = rng.chance(600);
  for i in 0..total_ops {
    let t = rng.usize_below(n_threads);
    // ops only target objects that contain the cache (never W or a twin)
    let obj = 1 + rng.usize_below(n_cached_objs);
    let columns = if rng.chance(700) { c0 } else { !c0 };
    let kind = match rng.below(100) {
      0..=29 => OpKind::Map { columns },
      30..=59 => OpKind::Stream {
        columns,
        abort_at: if rng.chance(120) { Some(rng.below(4) as u32) } else { None },
      },
      60..=66 => OpKind::Hash,
      67..=72 => OpKind::Source,
      73..=76 => OpKind::Size,
      77..=80 => OpKind::Buffer,
      81..=83 => OpKind::Rope,
      84..=87 => OpKind::ToWriter {
        plan: crate::conc::gen_writer_plan(rng),
      },
      88..=93 => OpKind::CloneThen {
        then: Box::new(if rng.chance(500) {
          OpKind::Map { columns }
        } else {
          OpKind::Stream { columns, abort_at: None }
        }),
        orphan: None,
      },
      _ => OpKind::Map { columns: !columns },
    };
    let _ = i;
    threads[t].push(Op { obj, kind });
  }
  threads.retain(|t| !t.is_empty());
  if threads.is_empty() {
    threads.push(vec![Op {
      obj: 1,
      kind: OpKind::Map { columns: c0 },
    }]);
  }
  Scenario {
    family: "c10".into(),
    objects,
    threads,
  }
}
