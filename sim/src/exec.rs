//! Executing one operation against a real source object and recording its
//! answer as plain data.

use std::{
  borrow::Cow,
  collections::BTreeMap,
  hash::{Hash, Hasher},
  panic::{catch_unwind, AssertUnwindSafe},
};

use rspack_sources::{MapOptions, Mapping, Rope, Source, SourceMap};
use rustc_hash::FxHasher;
use serde::{Deserialize, Serialize};

use crate::{
  io::{IoStats, SimWriter},
  model::{decode_mappings, resolve_map_segs, Attr, RSeg},
  sched::{self, fault_point, user_point, Cancelled, SimAbort},
  spec::OpKind,
};

/// A source object as the harness sees it.
pub type Dyn = dyn Source + 'static;

#[derive(Clone, Debug, Serialize, Deserialize, PartialEq)]
pub struct MapAns {
  pub mappings: String,
  pub sources: Vec<String>,
  pub sources_content: Vec<String>,
  pub names: Vec<String>,
  pub file: Option<String>,
  pub source_root: Option<String>,
  #[serde(default)]
  pub debug_id: Option<String>,
  pub segs: Vec<RSeg>,
  pub decode_ok: bool,
}

impl MapAns {
  pub fn from_map(m: &SourceMap) -> MapAns {
    let decoded = decode_mappings(m.mappings());
    let decode_ok = decoded.is_some();
    let segs = resolve_map_segs(
      &decoded.unwrap_or_default(),
      m.sources(),
      m.names(),
      m.source_root(),
    );
    MapAns {
      mappings: m.mappings().to_string(),
      sources: m.sources().to_vec(),
      sources_content: m.sources_content().to_vec(),
      names: m.names().to_vec(),
      file: m.file().map(|s| s.to_string()),
      source_root: m.source_root().map(|s| s.to_string()),
      debug_id: m.get_debug_id().map(|s| s.to_string()),
      segs,
      decode_ok,
    }
  }
}

#[derive(Clone, Debug, Serialize, Deserialize, PartialEq)]
pub struct StreamAns {
  pub text: String,
  pub end: (u32, u32),
  pub segs: Vec<RSeg>,
  /// raw reported positions of chunks that carried text: (line, col, byte len)
  pub chunk_pos: Vec<(u32, u32, u32)>,
  pub n_chunks: u32,
  pub n_textless: u32,
  /// announced sources: index -> (name, content)
  pub sources: BTreeMap<u32, (String, Option<String>)>,
  pub names: BTreeMap<u32, String>,
  /// (address, length) of every *borrowed* source name / name handed out;
  /// never dereferenced, only compared
  pub borrowed: Vec<(usize, usize)>,
  /// error found by the consumer tail, if any
  pub tail_error: Option<String>,
}

#[derive(Clone, Debug, Serialize, Deserialize, PartialEq)]
pub enum Answer {
  Text(String),
  Bytes(Vec<u8>),
  Size(u64),
  Written {
    ok: bool,
    err_kind: Option<String>,
    err_is_injected: bool,
    accepted: Vec<u8>,
    io: IoStats,
  },
  Map(Option<MapAns>),
  Stream(StreamAns),
  Aborted { chunks_before: u32 },
  Hash(u64),
  Bool(bool),
  Panicked(String),
  /// the op never ran or was cut short by a simulation abort
  NotRun,
}

impl Answer {
  pub fn is_panic(&self) -> bool {
    matches!(self, Answer::Panicked(_))
  }
  pub fn brief(&self) -> String {
    match self {
      Answer::Text(t) => format!("Text({:?})", t),
      Answer::Bytes(b) => format!("Bytes({:?})", String::from_utf8_lossy(b)),
      Answer::Size(n) => format!("Size({})", n),
      Answer::Written { ok, err_kind, accepted, .. } => {
        format!("Written(ok={}, err={:?}, accepted={} bytes)", ok, err_kind, accepted.len())
      }
      Answer::Map(None) => "Map(None)".into(),
      Answer::Map(Some(m)) => format!("Map({:?} sources={:?} names={:?})", m.mappings, m.sources, m.names),
      Answer::Stream(s) => format!(
        "Stream(text={:?}, end={:?}, chunks={}, segs={})",
        s.text,
        s.end,
        s.n_chunks,
        s.segs.len()
      ),
      Answer::Aborted { chunks_before } => format!("Aborted(after {} chunks)", chunks_before),
      Answer::Hash(h) => format!("Hash({:016x})", h),
      Answer::Bool(b) => format!("Bool({})", b),
      Answer::Panicked(m) => format!("Panicked({})", m),
      Answer::NotRun => "NotRun".into(),
    }
  }
}

#[derive(Clone, Copy, Debug)]
pub struct ExecCtx {
  /// schedule points inside harness callbacks
  pub cb_points: bool,
  /// run the consumer tail (C19) over retained chunks
  pub consume: bool,
  /// serial number for error tags
  pub serial: u64,
}

pub fn fx_hash(src: &Dyn) -> u64 {
  let mut h = FxHasher::default();
  src.hash(&mut h);
  h.finish()
}

pub fn sip_hash(src: &Dyn) -> u64 {
  #[allow(deprecated)]
  let mut h = std::hash::SipHasher::new();
  src.hash(&mut h);
  h.finish()
}

/// Gather retained chunks into ropes the way a consumer does and cross-check
/// slicing against plain strings.
fn consumer_tail(chunks: &[(Option<Rope<'_>>, Mapping)]) -> Option<String> {

  let owned: Vec<String> = chunks
    .iter()
    .filter_map(|(c, _)| c.as_ref().map(|r| r.to_string()))
    .collect();
  let flat: String = owned.concat();
  // 1. rope gathered by append of the borrowed chunks
  let mut gathered = Rope::new();
  for (c, _) in chunks {
    if let Some(r) = c {
      gathered.append(r.clone());
    }
  }
  if gathered.to_string() != flat {
    return Some("append-gathered rope differs from concatenated chunk text".into());
  }
  // 2. rope collected from pieces (an empty stream gives an empty multi-piece rope)
  let collected: Rope = owned.iter().map(|s| s.as_str()).collect();
  if collected.len() != flat.len() {
    return Some("collected rope has a different length".into());
  }
  // 3. slices at char boundaries
  let mut bounds: Vec<usize> = flat.char_indices().map(|(i, _)| i).collect();
  bounds.push(flat.len());
  let picks: Vec<usize> = if cfg!(miri) && bounds.len() > 3 {
    let n = bounds.len();
    vec![bounds[0], bounds[n / 2], bounds[n - 1]]
  } else if bounds.len() <= 6 {
    bounds.clone()
  } else {
    let n = bounds.len();
    vec![bounds[0], bounds[1], bounds[n / 3], bounds[n / 2], bounds[n - 2], bounds[n - 1]]
  };
  for rope in [&gathered, &collected] {
    match rope.get_byte_slice(0..0) {
      Some(r) if r.is_empty() => {}
      Some(_) => return Some("get_byte_slice(0..0) is not empty".into()),
      None => return Some("get_byte_slice(0..0) returned None".into()),
    }
    for (ai, a) in picks.iter().enumerate() {
      for b in picks.iter().skip(ai) {
        let got = rope.byte_slice(*a..*b).to_string();
        if got != flat[*a..*b] {
          return Some(format!("byte_slice({}..{}) = {:?}, expected {:?}", a, b, got, &flat[*a..*b]));
        }
      }
    }
    let lines: Vec<String> = rope.lines().map(|l| l.to_string()).collect();
    if lines.concat() != flat {
      return Some("lines() do not reassemble".into());
    }
    let chars: String = rope.char_indices().map(|(_, c)| c).collect();
    if chars != flat {
      return Some("char_indices() do not reassemble".into());
    }
  }
  None
}

fn do_stream<'a>(
  src: &'a Dyn,
  columns: bool,
  abort_at: Option<u32>,
  ctx: &ExecCtx,
) -> Answer {
  let mut chunks: Vec<(Option<Rope<'a>>, Mapping)> = vec![];
  let mut sources: Vec<(u32, Cow<'a, str>, Option<Rope<'a>>)> = vec![];
  let mut names: Vec<(u32, Cow<'a, str>)> = vec![];
  let mut count: u32 = 0;
  let cb_points = ctx.cb_points;
  let res = catch_unwind(AssertUnwindSafe(|| {
    src.stream_chunks(
      &MapOptions::new(columns),
      &mut |chunk, mapping| {
        if cb_points {
          user_point("cb.chunk");
        }
        fault_point();
        if abort_at == Some(count) {
          std::panic::resume_unwind(Box::new(Cancelled));
        }
        count += 1;
        chunks.push((chunk, mapping));
      },
      &mut |i, name, content| {
        if cb_points {
          user_point("cb.source");
        }
        fault_point();
        sources.push((i, name, content));
      },
      &mut |i, name| {
        if cb_points {
          user_point("cb.name");
        }
        fault_point();
        names.push((i, name));
      },
    )
  }));
  let info = match res {
    Ok(info) => info,
    Err(p) => {
      if p.is::<Cancelled>() {
        return Answer::Aborted {
          chunks_before: chunks.len() as u32,
        };
      }
      std::panic::resume_unwind(p);
    }
  };
  // The call has returned; everything retained is still borrowed for 'a.
  // Read all of it now (under Miri this is where a dangling borrow shows).
  let mut borrowed = vec![];
  let mut src_tab: BTreeMap<u32, (String, Option<String>)> = BTreeMap::new();
  for (i, name, content) in &sources {
    if let Cow::Borrowed(s) = name {
      borrowed.push((s.as_ptr() as usize, s.len()));
    }
    src_tab.insert(*i, (name.to_string(), content.as_ref().map(|c| c.to_string())));
  }
  let mut name_tab: BTreeMap<u32, String> = BTreeMap::new();
  for (i, name) in &names {
    if let Cow::Borrowed(s) = name {
      borrowed.push((s.as_ptr() as usize, s.len()));
    }
    name_tab.insert(*i, name.to_string());
  }
  let mut text = String::new();
  let mut segs = Vec::with_capacity(chunks.len());
  let mut chunk_pos = vec![];
  let mut n_textless = 0;
  for (chunk, m) in &chunks {
    match chunk {
      Some(r) => {
        let s = r.to_string();
        chunk_pos.push((m.generated_line, m.generated_column, s.len() as u32));
        text.push_str(&s);
      }
      None => n_textless += 1,
    }
    segs.push(RSeg {
      line: m.generated_line,
      col: m.generated_column,
      attr: m.original.as_ref().map(|o| Attr {
        file: src_tab
          .get(&o.source_index)
          .map(|s| s.0.clone())
          .unwrap_or_else(|| format!("<unannounced source {}>", o.source_index)),
        line: o.original_line,
        col: o.original_column,
        name: o.name_index.map(|n| {
          name_tab
            .get(&n)
            .cloned()
            .unwrap_or_else(|| format!("<unannounced name {}>", n))
        }),
      }),
    });
  }
  let tail_error = if ctx.consume { consumer_tail(&chunks) } else { None };
  Answer::Stream(StreamAns {
    text,
    end: (info.generated_line, info.generated_column),
    segs,
    chunk_pos,
    n_chunks: chunks.len() as u32,
    n_textless,
    sources: src_tab,
    names: name_tab,
    borrowed,
    tail_error,
  })
}

/// Allocates, fills and frees a few blocks of the sizes a just-dropped value
/// is likely to have freed, so that a read through a dangling pointer meets
/// other bytes (natively; under Miri the read itself is the report).
fn scribble(hint: usize) {
  let mut keep: Vec<Vec<u8>> = vec![];
  for sz in [hint, hint, hint + 1, hint.saturating_sub(1), 16, 24, 32, 48, 64, 96, 128] {
    keep.push(vec![b'#'; sz.max(1)]);
  }
  std::hint::black_box(&keep);
}

fn exec_inner(src: &Dyn, objs: &[&Dyn], kind: &OpKind, ctx: &ExecCtx) -> Answer {
  match kind {
    OpKind::Source => Answer::Text(src.source().into_owned()),
    OpKind::Buffer => {
      let b = src.buffer().into_owned();
      // look at every byte: under Miri a byte nobody wrote is reported here
      // (copying it around is not)
      std::hint::black_box(b.iter().fold(0u8, |a, x| a ^ *x));
      Answer::Bytes(b)
    }
    OpKind::Size => Answer::Size(src.size() as u64),
    OpKind::Rope => Answer::Text(src.rope().to_string()),
    OpKind::ToWriter { plan } => {
      let mut w = SimWriter::new(plan.clone(), ctx.serial);
      let r = src.to_writer(&mut w);
      let tag = w.tag();
      let (ok, err_kind, err_is_injected) = match &r {
        Ok(()) => (true, None, false),
        Err(e) => (
          false,
          Some(format!("{:?}", e.kind())),
          e.get_ref().is_some_and(|inner| inner.to_string() == tag),
        ),
      };
      Answer::Written {
        ok,
        err_kind,
        err_is_injected,
        accepted: w.accepted,
        io: w.stats,
      }
    }
    OpKind::Map { columns } => {
      Answer::Map(src.map(&MapOptions::new(*columns)).as_ref().map(MapAns::from_map))
    }
    OpKind::Stream { columns, abort_at } => do_stream(src, *columns, *abort_at, ctx),
    OpKind::DebugFmt { limit } => {
      struct Sink {
        left: Option<usize>,
      }
      impl std::fmt::Write for Sink {
        fn write_str(&mut self, s: &str) -> std::fmt::Result {
          if let Some(l) = self.left.as_mut() {
            if s.len() > *l {
              *l = 0;
              return Err(std::fmt::Error);
            }
            *l -= s.len();
          }
          Ok(())
        }
      }
      let mut sink = Sink {
        left: limit.map(|l| l as usize),
      };
      let _ = std::fmt::Write::write_fmt(&mut sink, format_args!("{:?}", src));
      // constant answer: only the state left behind matters
      Answer::Size(0)
    }
    OpKind::Hash => Answer::Hash(fx_hash(src)),
    OpKind::UpdateHash => {
      let mut h = FxHasher::default();
      src.update_hash(&mut h);
      Answer::Hash(h.finish())
    }
    OpKind::Eq { other } => Answer::Bool(src == objs[*other]),
    OpKind::EqClone => {
      let c: Box<dyn Source> = dyn_clone::clone_box(src);
      if ctx.cb_points {
        user_point("op.cloned");
      }
      Answer::Bool(src == &*c && &*c == src)
    }
    OpKind::Lookup { probe } => {
      let mut m: std::collections::HashMap<&Dyn, u32> = std::collections::HashMap::new();
      m.insert(src, 1);
      if ctx.cb_points {
        user_point("op.inserted");
      }
      Answer::Bool(m.get(&objs[*probe]).is_some())
    }
    OpKind::CloneEditObserve { call, then } => {
      match src.as_any().downcast_ref::<rspack_sources::ReplaceSource<rspack_sources::BoxSource>>() {
        Some(r) => {
          let mut b = r.clone();
          if ctx.cb_points {
            user_point("op.cloned");
          }
          crate::spec::apply_call(&mut b, call);
          let inner: &Dyn = &b;
          exec_inner(inner, objs, then, ctx)
        }
        None => Answer::Bool(true),
      }
    }
    OpKind::ChildFault { at, then } => {
      let armed = sched::arm_fault(*at);
      let r = catch_unwind(AssertUnwindSafe(|| exec_inner(src, objs, then, ctx)));
      drop(armed);
      match r {
        Ok(a) => a,
        Err(p) if p.is::<Cancelled>() => Answer::Aborted {
          chunks_before: u32::MAX,
        },
        Err(p) => std::panic::resume_unwind(p),
      }
    }
    OpKind::CloneThen { then, orphan } => {
      let c: Box<dyn Source> = dyn_clone::clone_box(src);
      if ctx.cb_points {
        user_point("op.cloned");
      }
      match orphan {
        None => exec_inner(&*c, objs, then, ctx),
        Some(warm) => {
          // fill the first clone's lazily computed state, clone it again and
          // drop it: the second clone must not depend on its origin
          // (the warm-up is a disturber: if it panics, e.g. on positional
          // arithmetic over a binary leaf, that is not this op's answer)
          if let Err(p) = catch_unwind(AssertUnwindSafe(|| {
            let _ = exec_inner(&*c, objs, warm, ctx);
          })) {
            if p.is::<SimAbort>() {
              std::panic::resume_unwind(p);
            }
            let _ = sched::take_last_panic();
          }
          let c2: Box<dyn Source> = dyn_clone::clone_box(&*c);
          let hint = c.size();
          drop(c);
          scribble(hint);
          exec_inner(&*c2, objs, then, ctx)
        }
      }
    }
  }
}

/// Execute one op. A panic inside the op becomes `Answer::Panicked`; a
/// simulation abort is propagated as `Err(())`.
pub fn exec_op(
  objs: &[&Dyn],
  obj: usize,
  kind: &OpKind,
  ctx: &ExecCtx,
) -> Result<Answer, ()> {
  let r = catch_unwind(AssertUnwindSafe(|| exec_inner(objs[obj], objs, kind, ctx)));
  match r {
    Ok(a) => Ok(a),
    Err(p) => {
      if p.is::<SimAbort>() {
        return Err(());
      }
      let msg = if p.is::<Cancelled>() {
        "Cancelled payload escaped".to_string()
      } else {
        sched::take_last_panic().unwrap_or_else(|| {
          if let Some(s) = p.downcast_ref::<&str>() {
            s.to_string()
          } else if let Some(s) = p.downcast_ref::<String>() {
            s.clone()
          } else {
            "<panic>".to_string()
          }
        })
      };
      Ok(Answer::Panicked(msg))
    }
  }
}
