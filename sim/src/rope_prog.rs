//! Seeded rope programs for C19's input-only preconditions: ropes built by
//! `new / from / from_iter / add / append`, sliced through every `RangeBounds`
//! form (valid, off-boundary, out of range, empty multi-piece ropes), iterated
//! and compared with a `String` model, with the guarded precondition
//! assertions armed at every unsafe site in rope.rs. Only precondition
//! failures are C19 violations; a plain model mismatch is counted (C16's
//! subject).

use std::ops::Bound;

use rspack_sources::Rope;
use serde::{Deserialize, Serialize};

use crate::{
  conc::{Counters, Violation},
  rng::Rng,
  sched,
};

#[derive(Clone, Debug, Serialize, Deserialize, PartialEq)]
pub enum RopeOp {
  /// start over with `Rope::new()`
  New,
  /// start over with `Rope::from(arena[i])`
  From(usize),
  /// start over with `arena[ids].collect::<Rope>()` (may be empty / all-empty)
  FromIter(Vec<usize>),
  Add(usize),
  /// append a rope built by `from_iter` over the pieces
  AppendIter(Vec<usize>),
  /// append a single-piece rope
  AppendLight(usize),
  /// append a clone of the current rope
  AppendSelf,
  /// `get_byte_slice(range)`; when it returns a rope and `keep`, continue with it
  Slice { lo: Option<(usize, bool)>, hi: Option<(usize, bool)>, keep: bool },
  /// `byte_slice_unchecked` on a range that is valid by construction
  /// (percentages of the current length, snapped to char boundaries)
  Unchecked {
    lo_pct: u8,
    hi_pct: u8,
    keep: bool,
    /// how the (valid) range a..b is written: 0 `a..b`, 1 `(Excluded(a-1), Excluded(b))`
    /// when a > 0, 2 `a..=b-1` when b > a, 3 unbounded ends where they apply,
    /// 4 `(Excluded(a-1), Included(b-1))` — every form denotes the same bytes
    #[serde(default)]
    form: u8,
  },
  GetByte(usize),
  CharIndices,
  Lines,
  StartsWith(usize),
  EndsWith(char),
  Observe,
}

#[derive(Clone, Debug, Serialize, Deserialize, PartialEq)]
pub struct RopeCase {
  pub kind: String, // "rope"
  pub arena: Vec<String>,
  pub ops: Vec<RopeOp>,
}

const PIECES: &[&str] = &["", "", "a", "b", "ab", "\n", "x\ny", "é", "中文", "😀", "\r\n", "foo;", "{}", " ", "\u{2028}"];

pub fn gen_rope_case(rng: &mut Rng) -> RopeCase {
  let n_arena = 2 + rng.usize_below(6);
  let arena: Vec<String> = (0..n_arena)
    .map(|_| {
      let k = rng.usize_below(4);
      (0..k).map(|_| *rng.pick(PIECES)).collect()
    })
    .collect();
  let n_ops = 2 + rng.usize_below(14);
  // swarm mode "many pieces" (6% of the programs): the program starts from a
  // rope of 31 .. 260 pieces (count next to a power of two)
  let many_pieces = !cfg!(miri) && rng.chance(60);
  let pick_ids = |rng: &mut Rng| -> Vec<usize> {
    let k = rng.usize_below(5);
    (0..k).map(|_| rng.usize_below(n_arena)).collect()
  };
  let pos = |rng: &mut Rng| -> usize {
    match rng.below(10) {
      0 => 0,
      1 => usize::MAX,
      2 => 1000,
      3 if many_pieces => rng.usize_below(700),
      _ => rng.usize_below(24),
    }
  };
  let bound = |rng: &mut Rng| -> Option<(usize, bool)> {
    match rng.below(4) {
      0 => None,
      1 => Some((pos(rng).min(1 << 40), false)),
      _ => Some((pos(rng).min(1 << 40), true)),
    }
  };
  let mut ops = vec![];
  if many_pieces {
    let n = crate::gen::magic_count(rng, 8);
    ops.push(RopeOp::FromIter((0..n).map(|_| rng.usize_below(n_arena)).collect()));
  }
  for _ in 0..n_ops {
    let op = match rng.below(100) {
      0..=4 => RopeOp::New,
      5..=9 => RopeOp::From(rng.usize_below(n_arena)),
      10..=19 => RopeOp::FromIter(pick_ids(rng)),
      20..=29 => RopeOp::Add(rng.usize_below(n_arena)),
      30..=37 => RopeOp::AppendIter(pick_ids(rng)),
      38..=42 => RopeOp::AppendLight(rng.usize_below(n_arena)),
      43..=45 => RopeOp::AppendSelf,
      46..=69 => RopeOp::Slice {
        lo: bound(rng),
        hi: bound(rng),
        keep: rng.chance(400),
      },
      70..=79 => RopeOp::Unchecked {
        // the ends of the rope get extra weight
        lo_pct: if rng.chance(150) { 0 } else { rng.below(101) as u8 },
        hi_pct: if rng.chance(200) { 100 } else { rng.below(101) as u8 },
        keep: rng.chance(400),
        form: if rng.chance(500) { 0 } else { 1 + rng.below(4) as u8 },
      },
      80..=83 => RopeOp::GetByte(pos(rng)),
      84..=87 => RopeOp::CharIndices,
      88..=91 => RopeOp::Lines,
      92..=94 => RopeOp::StartsWith(rng.usize_below(n_arena)),
      95..=96 => RopeOp::EndsWith(*rng.pick(&['\n', 'a', '中', ';'])),
      _ => RopeOp::Observe,
    };
    ops.push(op);
  }
  RopeCase {
    kind: "rope".into(),
    arena,
    ops,
  }
}

fn to_bounds(lo: &Option<(usize, bool)>, hi: &Option<(usize, bool)>) -> (Bound<usize>, Bound<usize>) {
  let b = |x: &Option<(usize, bool)>| match x {
    None => Bound::Unbounded,
    Some((v, true)) => Bound::Included(*v),
    Some((v, false)) => Bound::Excluded(*v),
  };
  (b(lo), b(hi))
}

/// The model's view of a range: `Some((start, end))` when it denotes a valid
/// slice of `m`.
fn model_range(m: &str, lo: &Option<(usize, bool)>, hi: &Option<(usize, bool)>) -> Option<(usize, usize)> {
  let start = match lo {
    None => 0,
    Some((v, true)) => *v,
    Some((v, false)) => v.checked_add(1)?,
  };
  let end = match hi {
    None => m.len(),
    Some((v, true)) => v.checked_add(1)?,
    Some((v, false)) => *v,
  };
  (start <= end && end <= m.len() && m.is_char_boundary(start) && m.is_char_boundary(end)).then_some((start, end))
}

fn run_program<'a>(arena: &'a [String], ops: &[RopeOp], counters: &mut Counters) -> Option<String> {
  let mut rope: Rope<'a> = Rope::new();
  let mut model = String::new();
  let collect = |ids: &[usize]| -> (Rope<'a>, String) {
    let r: Rope<'a> = ids.iter().map(|i| arena[*i].as_str()).collect();
    let m: String = ids.iter().map(|i| arena[*i].as_str()).collect();
    (r, m)
  };
  for (n, op) in ops.iter().enumerate() {
    match op {
      RopeOp::New => {
        rope = Rope::new();
        model.clear();
      }
      RopeOp::From(i) => {
        rope = Rope::from(arena[*i].as_str());
        model = arena[*i].clone();
      }
      RopeOp::FromIter(ids) => {
        let (r, m) = collect(ids);
        if r.len() == 0 {
          counters.inc("probe:empty_multi_piece_rope");
        }
        rope = r;
        model = m;
      }
      RopeOp::Add(i) => {
        rope.add(arena[*i].as_str());
        model.push_str(&arena[*i]);
      }
      RopeOp::AppendIter(ids) => {
        let (r, m) = collect(ids);
        rope.append(r);
        model.push_str(&m);
      }
      RopeOp::AppendLight(i) => {
        rope.append(Rope::from(arena[*i].as_str()));
        model.push_str(&arena[*i]);
      }
      RopeOp::AppendSelf => {
        let c = rope.clone();
        rope.append(c);
        let m2 = model.clone();
        model.push_str(&m2);
      }
      RopeOp::Slice { lo, hi, keep } => {
        let got = rope.get_byte_slice(to_bounds(lo, hi));
        let want = model_range(&model, lo, hi);
        counters.inc(if want.is_some() { "rope:valid_slices" } else { "rope:invalid_slices" });
        match (got, want) {
          (Some(r), Some((a, b))) => {
            if r.to_string() != model[a..b] {
              return Some(format!("op {}: slice {:?}..{:?} renders {:?}, model {:?}", n, lo, hi, r.to_string(), &model[a..b]));
            }
            if *keep {
              rope = r;
              model = model[a..b].to_string();
            }
          }
          (None, None) => {}
          (Some(r), None) => {
            // a slice that is not valid UTF-8 is a `str` with invalid content:
            // C19's subject whether or not a guarded site was involved
            if std::str::from_utf8(&r.to_bytes()).is_err() {
              counters.inc("rope:invalid_utf8_slices");
              return Some(format!(
                "INVALID-UTF8 op {}: get_byte_slice({:?}, {:?}) returned a rope whose bytes {:?} are not valid UTF-8",
                n,
                lo,
                hi,
                r.to_bytes()
              ));
            }
            // accepting an invalid range is only a model mismatch if it yields non-empty text
            if !r.is_empty() {
              return Some(format!("op {}: invalid range {:?}..{:?} accepted and renders {:?}", n, lo, hi, r.to_string()));
            }
          }
          (None, Some(_)) => return Some(format!("op {}: valid range {:?}..{:?} rejected", n, lo, hi)),
        }
      }
      RopeOp::Unchecked { lo_pct, hi_pct, keep, form } => {
        let len = model.len();
        let mut a = len * (*lo_pct as usize) / 100;
        let mut b = len * (*hi_pct as usize) / 100;
        if a > b {
          std::mem::swap(&mut a, &mut b);
        }
        while !model.is_char_boundary(a) {
          a -= 1;
        }
        while !model.is_char_boundary(b) {
          b += 1;
        }
        counters.inc("rope:unchecked_slices");
        // in-range, ordered, on char boundaries: the documented safety contract holds
        let lo_b = match form {
          1 | 4 if a > 0 => Bound::Excluded(a - 1),
          3 if a == 0 => Bound::Unbounded,
          _ => Bound::Included(a),
        };
        let hi_b = match form {
          2 | 4 if b > a => Bound::Included(b - 1),
          3 if b == len => Bound::Unbounded,
          _ => Bound::Excluded(b),
        };
        if !matches!((lo_b, hi_b), (Bound::Included(_), Bound::Excluded(_))) {
          counters.inc("rope:unchecked_slices_other_range_forms");
        }
        #[allow(unsafe_code)]
        let r = unsafe { rope.byte_slice_unchecked((lo_b, hi_b)) };
        if r.to_string() != model[a..b] {
          return Some(format!("op {}: byte_slice_unchecked({}..{}) renders {:?}, model {:?}", n, a, b, r.to_string(), &model[a..b]));
        }
        if *keep {
          rope = r;
          model = model[a..b].to_string();
        }
      }
      RopeOp::GetByte(i) => {
        if rope.get_byte(*i) != model.as_bytes().get(*i).copied() {
          return Some(format!("op {}: get_byte({}) differs", n, i));
        }
      }
      RopeOp::CharIndices => {
        let got: Vec<(usize, char)> = rope.char_indices().collect();
        let want: Vec<(usize, char)> = model.char_indices().collect();
        if got != want {
          return Some(format!("op {}: char_indices differ", n));
        }
      }
      RopeOp::Lines => {
        let got: String = rope.lines().map(|l| l.to_string()).collect();
        if got != model {
          return Some(format!("op {}: lines() reassemble to {:?}, model {:?}", n, got, model));
        }
      }
      RopeOp::StartsWith(i) => {
        let p = Rope::from(arena[*i].as_str());
        if rope.starts_with(&p) != model.starts_with(arena[*i].as_str()) {
          return Some(format!("op {}: starts_with({:?}) differs", n, arena[*i]));
        }
      }
      RopeOp::EndsWith(c) => {
        if rope.ends_with(*c) != model.ends_with(*c) {
          return Some(format!("op {}: ends_with({:?}) differs", n, c));
        }
      }
      RopeOp::Observe => {
        if rope.len() != model.len() || rope.is_empty() != model.is_empty() || rope.to_string() != model || rope.to_bytes().as_ref() != model.as_bytes() {
          return Some(format!("op {}: len/is_empty/to_string/to_bytes differ from the model {:?}", n, model));
        }
      }
    }
  }
  None
}

pub fn check_rope_case(case: &RopeCase) -> (Vec<Violation>, Counters) {
  sched::set_quiet(true);
  let _ = sched::take_unsafe_fails();
  let mut counters = Counters::default();
  let mut violations = vec![];
  let r = std::panic::catch_unwind(std::panic::AssertUnwindSafe(|| run_program(&case.arena, &case.ops, &mut counters)));
  let fails = sched::take_unsafe_fails();
  sched::flush_unsafe_hits();
  if !fails.is_empty() {
    violations.push(Violation {
      kind: "precondition".into(),
      op_class: "rope".into(),
      detail: format!("rope program violated the precondition of an unsafe operation: {:?}", fails),
    });
  }
  match r {
    Ok(None) => {}
    Ok(Some(mismatch)) => {
      if mismatch.starts_with("INVALID-UTF8") {
        violations.push(Violation {
          kind: "invalid_utf8".into(),
          op_class: "rope".into(),
          detail: mismatch,
        });
      } else {
        counters.inc("rope:model_mismatch_not_judged_here");
      }
    }
    Err(_) => {
      let msg = sched::take_last_panic().unwrap_or_default();
      if msg.contains("rspack_sources_verif: precondition") && fails.is_empty() {
        violations.push(Violation {
          kind: "precondition".into(),
          op_class: "rope".into(),
          detail: msg,
        });
      } else {
        counters.inc("rope:panics_not_judged_here");
      }
    }
  }
  counters.inc("population:rope_programs");
  (violations, counters)
}

pub fn shrink_rope_case(case: &RopeCase, kind: &str) -> RopeCase {
  let fails = |c: &RopeCase| check_rope_case(c).0.iter().any(|v| v.kind == kind);
  let mut cur = case.clone();
  let mut progress = true;
  while progress {
    progress = false;
    for i in 0..cur.ops.len() {
      let mut c = cur.clone();
      c.ops.remove(i);
      if fails(&c) {
        cur = c;
        progress = true;
        break;
      }
    }
    if progress {
      continue;
    }
    for i in 0..cur.arena.len() {
      if cur.arena[i].chars().count() > 1 {
        let mut c = cur.clone();
        c.arena[i] = cur.arena[i].chars().take(1).collect();
        if fails(&c) {
          cur = c;
          progress = true;
          break;
        }
      }
    }
  }
  cur
}
