//! Self-tests of the simulator itself (`vsim selftest`): toy programs over the
//! seam's own wrappers with *known* concurrency bugs. The scheduler must find
//! each bug within a bounded number of seeded schedules, replay it exactly
//! from the recorded deviations, and must not report anything for the
//! corrected variants.

use std::sync::Arc;

use rspack_sources::verif::sync::{AtomicBool, Mutex, OnceLock, Ordering};

use crate::{
  rng::splitmix64,
  sched::{run_threads, Abort, Policy, Sim, SimStats},
};

fn run2(seed: u64, replay: Option<Vec<(u64, usize)>>, a: &(dyn Fn() + Sync), b: &(dyn Fn() + Sync)) -> SimStats {
  let policy = match seed % 3 {
    0 => Policy::Walk { permille: 300 },
    1 => Policy::Pct { depth: 2, horizon: 12 },
    _ => Policy::Forced { k: 2, horizon: 10 },
  };
  let sim = Sim::new(2, &policy, splitmix64(seed), replay, 10_000, false, &[]);
  let bodies: Vec<Box<dyn FnOnce(usize) + Send + '_>> = vec![Box::new(move |_| a()), Box::new(move |_| b())];
  run_threads(&sim, None, bodies);
  sim.stats()
}

/// Lock-order inversion: T0 takes m1 then m2, T1 takes m2 then m1.
fn deadlock_toy(fixed: bool, seed: u64, replay: Option<Vec<(u64, usize)>>) -> SimStats {
  let m1 = Arc::new(Mutex::new(0u32));
  let m2 = Arc::new(Mutex::new(0u32));
  let (a1, a2) = (m1.clone(), m2.clone());
  let (b1, b2) = (m1.clone(), m2.clone());
  run2(
    seed,
    replay,
    &move || {
      let g1 = a1.lock().unwrap();
      let g2 = a2.lock().unwrap();
      drop((g1, g2));
    },
    &move || {
      if fixed {
        let g1 = b1.lock().unwrap();
        let g2 = b2.lock().unwrap();
        drop((g1, g2));
      } else {
        let g2 = b2.lock().unwrap();
        let g1 = b1.lock().unwrap();
        drop((g1, g2));
      }
    },
  )
}

/// Check-then-act on a flag guarding a once-only action.
fn race_toy(fixed: bool, seed: u64, replay: Option<Vec<(u64, usize)>>) -> (SimStats, u32) {
  let flag = Arc::new(AtomicBool::new(false));
  let count = Arc::new(Mutex::new(0u32));
  let once = Arc::new(OnceLock::<u32>::new());
  let body = |flag: Arc<AtomicBool>, count: Arc<Mutex<u32>>, once: Arc<OnceLock<u32>>| {
    move || {
      if fixed {
        once.get_or_init(|| {
          *count.lock().unwrap() += 1;
          1
        });
      } else if !flag.load(Ordering::SeqCst) {
        *count.lock().unwrap() += 1;
        flag.store(true, Ordering::SeqCst);
      }
    }
  };
  let a = body(flag.clone(), count.clone(), once.clone());
  let b = body(flag.clone(), count.clone(), once.clone());
  let st = run2(seed, replay, &a, &b);
  let n = *count.lock().unwrap();
  (st, n)
}

pub fn run() -> i32 {
  let mut rc = 0;
  // 1. the deadlock is found, reported with who waits where, and replays
  let mut found = None;
  for seed in 0..200u64 {
    let st = deadlock_toy(false, seed, None);
    if let Some(Abort::Deadlock { waiting }) = &st.abort {
      found = Some((seed, st.deviations.clone(), st.log_hash, waiting.clone()));
      break;
    }
  }
  match found {
    Some((seed, devs, hash, waiting)) => {
      let again = deadlock_toy(false, 999, Some(devs.clone()));
      let same = matches!(again.abort, Some(Abort::Deadlock { .. })) && again.log_hash == hash;
      println!(
        "selftest deadlock: found at schedule seed {} (deviations {:?}; {}), replay from deviations reproduces it exactly: {}",
        seed,
        devs,
        waiting.join("; "),
        same
      );
      if !same {
        rc = 2;
      }
    }
    None => {
      println!("HARNESS-ERROR: selftest deadlock: lock-order inversion not found in 200 schedules");
      rc = 2;
    }
  }
  let false_alarms = (0..2000u64).filter(|s| deadlock_toy(true, *s, None).abort.is_some()).count();
  println!("selftest deadlock: corrected variant, 2000 schedules, {} reports", false_alarms);
  if false_alarms > 0 {
    rc = 2;
  }
  // 2. the check-then-act race is found and replays; the OnceLock variant is clean
  let mut found = None;
  for seed in 0..200u64 {
    let (st, n) = race_toy(false, seed, None);
    if n == 2 {
      found = Some((seed, st.deviations.clone(), st.log_hash));
      break;
    }
  }
  match found {
    Some((seed, devs, hash)) => {
      let (again, n) = race_toy(false, 999, Some(devs.clone()));
      let same = n == 2 && again.log_hash == hash;
      println!(
        "selftest race: double execution found at schedule seed {} (deviations {:?}), replay reproduces it exactly: {}",
        seed, devs, same
      );
      if !same {
        rc = 2;
      }
    }
    None => {
      println!("HARNESS-ERROR: selftest race: check-then-act not found in 200 schedules");
      rc = 2;
    }
  }
  let bad = (0..2000u64).filter(|s| race_toy(true, *s, None).1 != 1).count();
  println!("selftest race: OnceLock variant, 2000 schedules, {} double executions", bad);
  if bad > 0 {
    rc = 2;
  }
  rc
}
