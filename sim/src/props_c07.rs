//! C07 — all content views of a source agree; failing writers.
//! Fault enumeration: for every generated tree, *every* failure offset k of
//! the writer is executed, in several fragmentation modes.

use serde::{Deserialize, Serialize};
use serde_json::{json, Value};

use crate::{
  conc::{Counters, Violation},
  driver::{Property, RunReport},
  exec::{exec_op, Answer, Dyn, ExecCtx},
  gen::{gen_tree, GenCfg, Ids},
  model::content,
  props_conc::tree_shrinks,
  rng::{run_seed, splitmix64, str_hash, Rng},
  sched,
  spec::{Builder, FailKind, OpKind, TreeSpec, WriterPlan},
};

#[derive(Clone, Debug, Serialize, Deserialize)]
pub struct C07Case {
  pub kind: String, // "views"
  pub tree: TreeSpec,
  /// fragmentation parameters for this tree (failure offsets are enumerated)
  pub max_chunk: u32,
  pub eintr_every: u32,
  pub eintr_burst: u32,
  /// extra seeded mixed plans
  pub mixed: Vec<WriterPlan>,
  /// when replaying a violation: only this plan (None = enumerate all)
  pub only_plan: Option<WriterPlan>,
  /// histories: each of these plans is the *first* call on a fresh object
  /// built from the same tree (nothing observed before it); the views are
  /// compared afterwards
  #[serde(default)]
  pub first_plans: Vec<WriterPlan>,
}

pub struct C07;

fn ctx(serial: u64) -> ExecCtx {
  ExecCtx {
    cb_points: false,
    consume: false,
    serial,
  }
}

pub fn written_expected(plan: &WriterPlan, truth: &[u8]) -> (bool, Vec<u8>) {
  let len = truth.len() as u64;
  let stop = [plan.fail_at, plan.zero_at]
    .iter()
    .flatten()
    .copied()
    .min()
    .filter(|k| *k < len);
  match stop {
    Some(k) => (false, truth[..k as usize].to_vec()),
    None => (true, truth.to_vec()),
  }
}

/// Judge one `to_writer` answer against the plan and the true bytes.
pub fn judge_written(ans: &Answer, plan: &WriterPlan, truth: &[u8]) -> Option<String> {
  match ans {
    Answer::Written {
      ok,
      err_kind,
      err_is_injected,
      accepted,
      io,
    } => {
      let (exp_ok, exp_bytes) = written_expected(plan, truth);
      // A call after the error is only observable when the failure was
      // transient: then its bytes are in the sink. "Having written only a
      // prefix of buffer()" is judged on the sink's content.
      if io.bytes_after_error > 0 && !truth.starts_with(accepted) {
        return Some(format!(
          "after the writer failed once at byte {:?}, to_writer kept writing: the sink holds {:?}, which is not a prefix of {:?}",
          plan.fail_at,
          String::from_utf8_lossy(accepted),
          String::from_utf8_lossy(truth)
        ));
      }
      if *ok != exp_ok {
        return Some(format!(
          "to_writer returned {} but a writer failing at {:?}/{:?} over {} bytes must make it return {}",
          if *ok { "Ok" } else { "Err" },
          plan.fail_at,
          plan.zero_at,
          truth.len(),
          if exp_ok { "Ok" } else { "Err" }
        ));
      }
      if *accepted != exp_bytes && !(io.bytes_after_error > 0 && truth.starts_with(accepted)) {
        return Some(format!(
          "writer accepted {:?}, expected {:?}",
          String::from_utf8_lossy(accepted),
          String::from_utf8_lossy(&exp_bytes)
        ));
      }
      if !*ok {
        let hard_first = match (plan.fail_at, plan.zero_at) {
          (Some(f), Some(z)) => f < z,
          (Some(_), None) => true,
          _ => false,
        };
        if hard_first && !*err_is_injected {
          return Some(format!("the error returned is not the injected one: {:?}", err_kind));
        }
        if !hard_first && err_kind.as_deref() != Some("WriteZero") {
          return Some(format!("Ok(0) from the writer must surface as WriteZero, got {:?}", err_kind));
        }
      }
      None
    }
    Answer::Panicked(m) => Some(format!("to_writer panicked: {}", m)),
    other => Some(format!("unexpected answer {}", other.brief())),
  }
}

fn has_binary(t: &TreeSpec) -> bool {
  match t {
    TreeSpec::RawBytes { .. } | TreeSpec::RawBuffer { .. } => true,
    TreeSpec::Concat { children, .. } => children.iter().any(has_binary),
    TreeSpec::Replace { inner, .. } | TreeSpec::Cached { inner, .. } | TreeSpec::User { inner, .. } | TreeSpec::Boxed { inner } => has_binary(inner),
    _ => false,
  }
}

struct Views {
  source: Answer,
  buffer: Answer,
  rope: Answer,
  size: Answer,
}

fn views(obj: &Dyn) -> Views {
  let objs = [obj];
  let c = ctx(0);
  Views {
    source: exec_op(&objs, 0, &OpKind::Source, &c).unwrap_or(Answer::NotRun),
    buffer: exec_op(&objs, 0, &OpKind::Buffer, &c).unwrap_or(Answer::NotRun),
    rope: exec_op(&objs, 0, &OpKind::Rope, &c).unwrap_or(Answer::NotRun),
    size: exec_op(&objs, 0, &OpKind::Size, &c).unwrap_or(Answer::NotRun),
  }
}

fn check_views(v: &Views, text: &str, bytes: &[u8], when: &str) -> Vec<Violation> {
  let mut out = vec![];
  let mut bad = |class: &str, detail: String| {
    out.push(Violation {
      kind: "view_mismatch".into(),
      op_class: class.into(),
      detail: format!("{}: {}", when, detail),
    })
  };
  match &v.source {
    Answer::Text(t) if t == text => {}
    a => bad("source", format!("source() = {} but the content model says {:?}", a.brief(), text)),
  }
  match &v.buffer {
    Answer::Bytes(b) if b == bytes => {}
    a => bad("buffer", format!("buffer() = {} but the content model says {:?}", a.brief(), String::from_utf8_lossy(bytes))),
  }
  match &v.rope {
    Answer::Text(t) if t == text => {}
    a => bad("rope", format!("rope() renders to {} but source() is {:?}", a.brief(), text)),
  }
  match &v.size {
    Answer::Size(n) if *n == bytes.len() as u64 => {}
    a => bad("size", format!("size() = {} but buffer().len() = {}", a.brief(), bytes.len())),
  }
  out
}

pub fn check_case(case: &C07Case) -> (Vec<Violation>, Counters, bool, Option<WriterPlan>) {
  sched::set_quiet(true);
  sched::set_shards(Some(4));
  let mut counters = Counters::default();
  let mut b = Builder::new();
  let obj = b.build(&case.tree);
  let dynobj: &Dyn = obj.as_ref();
  let objs = [dynobj];

  // fault-free configuration: the view-agreement clauses
  let v0 = views(dynobj);
  if [&v0.source, &v0.buffer, &v0.rope, &v0.size].iter().any(|a| a.is_panic()) {
    counters.inc("skipped_views_panic");
    return (vec![], counters, true, None);
  }
  // A tree with a replacement whose end lies before its start is outside the
  // replacement model's domain (C05 says nothing about it), but it is a
  // source, and C07's clauses are about the views of one source agreeing with
  // each other: there the object's own cold source() / buffer() are the
  // reference for rope, size, the writer and every later call.
  let in_model = crate::model::in_domain(&case.tree);
  let (text, bytes) = if in_model {
    content(&case.tree)
  } else {
    counters.inc("population:trees_outside_the_replacement_model");
    match (&v0.source, &v0.buffer) {
      (Answer::Text(t), Answer::Bytes(bt)) => {
        if !has_binary(&case.tree) && t.as_bytes() != bt.as_slice() {
          return (
            vec![Violation {
              kind: "view_mismatch".into(),
              op_class: "buffer".into(),
              detail: format!(
                "cold: every leaf holds valid UTF-8, yet buffer() = {:?} is not the bytes of source() = {:?}",
                String::from_utf8_lossy(bt),
                t
              ),
            }],
            counters,
            false,
            None,
          );
        }
        (t.clone(), bt.clone())
      }
      _ => {
        counters.inc("skipped_views_panic");
        return (vec![], counters, true, None);
      }
    }
  };
  let mut violations = check_views(&v0, &text, &bytes, "cold");
  let free = exec_op(&objs, 0, &OpKind::ToWriter { plan: WriterPlan::default() }, &ctx(1)).unwrap_or(Answer::NotRun);
  counters.inc("fault_free_writer_runs");
  if let Some(d) = judge_written(&free, &WriterPlan::default(), &bytes) {
    violations.push(Violation {
      kind: "writer_fault_free".into(),
      op_class: "to_writer".into(),
      detail: d,
    });
  }
  if !violations.is_empty() {
    return (violations, counters, false, None);
  }

  // fault-injecting configuration
  let len = bytes.len() as u64;
  let mut plans: Vec<WriterPlan> = vec![];
  match &case.only_plan {
    Some(p) => plans.push(p.clone()),
    None => {
      let kinds = [
        FailKind::StorageFull,
        FailKind::BrokenPipe,
        FailKind::WouldBlock,
        FailKind::PermissionDenied,
        FailKind::Other,
        FailKind::TimedOut,
        FailKind::WouldBlock,
      ];
      // Small trees: every offset. Large trees (the 3 % "big leaf" swarm mode,
      // 8-20 KiB: beyond the 8 KiB buffer size of std's BufWriter / typical
      // chunked copies): the offsets around every power-of-two boundary, the
      // ends, and a seeded sample.
      let offsets: Vec<u64> = if len <= 600 {
        (0..=len + 1).collect()
      } else {
        let mut v: Vec<u64> = vec![0, 1, 2, len - 1, len, len + 1];
        let mut b = 512u64;
        while b < len + 2 {
          v.extend([b - 1, b, b + 1]);
          b *= 2;
        }
        let mut x = crate::rng::Rng::new(len ^ case.max_chunk as u64);
        v.extend((0..24).map(|_| x.below(len)));
        v.sort_unstable();
        v.dedup();
        counters.inc("population:big_trees_sampled_offsets");
        v
      };
      for k in offsets {
        let fail_kind = kinds[(k % 7) as usize].clone();
        // whole-buffer writes
        plans.push(WriterPlan {
          fail_at: Some(k),
          fail_kind: fail_kind.clone(),
          ..Default::default()
        });
        // short writes (into a sink with its own write_vectored for odd k)
        plans.push(WriterPlan {
          fail_at: Some(k),
          fail_kind: fail_kind.clone(),
          max_chunk: case.max_chunk.max(1),
          vectored: k % 2 == 1,
          ..Default::default()
        });
        // short writes + EINTR bursts
        plans.push(WriterPlan {
          fail_at: Some(k),
          fail_kind: fail_kind.clone(),
          max_chunk: case.max_chunk.max(1),
          eintr_every: case.eintr_every.max(1),
          eintr_burst: case.eintr_burst.max(1),
          ..Default::default()
        });
        // transient failure at k (one failing call, then the sink recovers)
        plans.push(WriterPlan {
          fail_at: Some(k),
          fail_kind: fail_kind.clone(),
          max_chunk: if k % 2 == 0 { 0 } else { case.max_chunk.max(1) },
          transient: true,
          ..Default::default()
        });
        // Ok(0) at k
        plans.push(WriterPlan {
          zero_at: Some(k),
          max_chunk: if k % 2 == 0 { 0 } else { case.max_chunk.max(1) },
          ..Default::default()
        });
      }
      // fragmentation only
      plans.push(WriterPlan {
        max_chunk: case.max_chunk.max(1),
        eintr_every: case.eintr_every.max(1),
        eintr_burst: case.eintr_burst.max(1),
        ..Default::default()
      });
      // a sink that re-enters the library on its first write
      plans.push(WriterPlan {
        reenter: true,
        max_chunk: case.max_chunk.max(1),
        ..Default::default()
      });
      // fragmentation only, scatter/gather sink, every chunk size up to 7
      for m in 1..=7 {
        plans.push(WriterPlan {
          max_chunk: m,
          vectored: true,
          ..Default::default()
        });
      }
      plans.extend(case.mixed.iter().cloned());
    }
  }
  let mut first_bad: Option<WriterPlan> = None;
  for (n, plan) in plans.iter().enumerate() {
    let a = exec_op(&objs, 0, &OpKind::ToWriter { plan: plan.clone() }, &ctx(100 + n as u64)).unwrap_or(Answer::NotRun);
    counters.inc("fault_writer_runs");
    if let Answer::Written { io, .. } = &a {
      counters.add("fault:short_write_fired", io.short_writes);
      counters.add("fault:eintr_fired", io.eintr);
      counters.add("fault:hard_write_error_fired", io.hard_errors);
      counters.add("fault:write_zero_fired", io.zero_returns);
      if plan.transient {
        counters.add("fault:transient_write_error_fired", io.hard_errors);
      }
      counters.add("probe:write_calls_after_error", io.calls_after_error);
      counters.add("probe:write_vectored_calls", io.vectored_calls);
      counters.add("probe:sink_reentered_the_library", io.reentered);
      if io.reenter_mismatch > 0 {
        violations.push(Violation {
          kind: "writer".into(),
          op_class: "to_writer".into(),
          detail: format!("plan {:?}: a to_writer call made by the sink itself, while the outer to_writer was inside write(), wrote the wrong bytes or failed", plan),
        });
        first_bad = Some(plan.clone());
        break;
      }
    }
    if let Some(d) = judge_written(&a, plan, &bytes) {
      violations.push(Violation {
        kind: "writer".into(),
        op_class: "to_writer".into(),
        detail: format!("plan {:?}: {}", plan, d),
      });
      first_bad = Some(plan.clone());
      break;
    }
  }
  // afterwards all views are unchanged
  let v1 = views(dynobj);
  violations.extend(check_views(&v1, &text, &bytes, "after the faulty writers"));
  // histories that start with to_writer: a (fragmented, interrupted, failing)
  // write is the first call on a cold object, the views come afterwards
  if violations.is_empty() {
    for (n, plan) in case.first_plans.iter().enumerate() {
      let mut b2 = Builder::new();
      let fresh = b2.build(&case.tree);
      let fresh_dyn: &Dyn = fresh.as_ref();
      let a = exec_op(&[fresh_dyn], 0, &OpKind::ToWriter { plan: plan.clone() }, &ctx(50_000 + n as u64)).unwrap_or(Answer::NotRun);
      counters.inc("probe:to_writer_first_on_cold_object");
      if let Answer::Written { io, .. } = &a {
        counters.add("fault:short_write_fired", io.short_writes);
        counters.add("fault:eintr_fired", io.eintr);
        counters.add("fault:hard_write_error_fired", io.hard_errors);
        counters.add("fault:write_zero_fired", io.zero_returns);
      }
      if let Some(d) = judge_written(&a, plan, &bytes) {
        violations.push(Violation {
          kind: "writer".into(),
          op_class: "to_writer".into(),
          detail: format!("first call on a cold object, plan {:?}: {}", plan, d),
        });
        break;
      }
      let when = format!("after a first to_writer on a cold object (plan {:?})", plan);
      let v2 = views(fresh_dyn);
      violations.extend(check_views(&v2, &text, &bytes, &when));
      let again = exec_op(&[fresh_dyn], 0, &OpKind::ToWriter { plan: WriterPlan::default() }, &ctx(60_000 + n as u64)).unwrap_or(Answer::NotRun);
      if let Some(d) = judge_written(&again, &WriterPlan::default(), &bytes) {
        violations.push(Violation {
          kind: "writer".into(),
          op_class: "to_writer".into(),
          detail: format!("{}: a second, fault-free to_writer: {}", when, d),
        });
      }
      if !violations.is_empty() {
        break;
      }
    }
  }
  // collaborator failures: a user-defined child source unwinds once inside a
  // content call (at its n-th method entry); nothing of it may stay behind
  if violations.is_empty() && case.tree.contains(&|n| matches!(n, TreeSpec::User { .. })) {
    let mut b3 = Builder::new();
    let fresh = b3.build(&case.tree);
    let fresh_dyn: &Dyn = fresh.as_ref();
    let mut n = 0u64;
    'outer: for at in 0..4u32 {
      for then in [
        OpKind::ToWriter { plan: WriterPlan::default() },
        OpKind::Buffer,
        OpKind::Source,
        OpKind::Size,
        OpKind::Rope,
      ] {
        n += 1;
        let a = exec_op(&[fresh_dyn], 0, &OpKind::ChildFault { at, then: Box::new(then.clone()) }, &ctx(70_000 + n))
          .unwrap_or(Answer::NotRun);
        counters.inc("fault:collaborator_unwind_planned");
        match &a {
          Answer::Aborted { .. } => counters.inc("fault:collaborator_unwind_fired"),
          Answer::Panicked(m) => {
            violations.push(Violation {
              kind: "panic".into(),
              op_class: then.class().into(),
              detail: format!("{} with a child source failing at its call #{} panicked by itself: {}", then.label(), at, m),
            });
            break 'outer;
          }
          _ => {}
        }
        let when = format!("after a child source unwound once inside {} (its call #{})", then.label(), at);
        let v3 = views(fresh_dyn);
        violations.extend(check_views(&v3, &text, &bytes, &when));
        let again = exec_op(&[fresh_dyn], 0, &OpKind::ToWriter { plan: WriterPlan::default() }, &ctx(80_000 + n)).unwrap_or(Answer::NotRun);
        if let Some(d) = judge_written(&again, &WriterPlan::default(), &bytes) {
          violations.push(Violation {
            kind: "writer".into(),
            op_class: "to_writer".into(),
            detail: format!("{}: a fault-free to_writer: {}", when, d),
          });
        }
        if !violations.is_empty() {
          break 'outer;
        }
      }
    }
  }
  (violations, counters, false, first_bad)
}

impl C07 {
  fn generate(&self, seed: u64, index: u64) -> C07Case {
    let mut rng = Rng::new(run_seed(seed, str_hash("C07"), index));
    let ascii = rng.chance(300);
    let mut cfg = GenCfg::small(ascii);
    cfg.allow_user = rng.chance(200);
    cfg.max_text = *rng.pick(&[6usize, 12, 24]);
    let mut ids = Ids::new();
    let mut budget = cfg.max_nodes;
    let mut tree = gen_tree(&mut rng, &cfg, &mut ids, cfg.max_depth, &mut budget);
    if rng.chance(30) {
      // big-leaf swarm mode: one child of 8-20 KiB
      let unit = crate::gen::gen_text(&mut rng, 12, ascii) + "ab\n";
      let target = *rng.pick(&[8190usize, 8192, 8193, 16384, 16385, 20000]);
      let mut text = String::new();
      while text.len() + unit.len() <= target {
        text.push_str(&unit);
      }
      while text.len() < target {
        text.push('x');
      }
      let big = if rng.chance(500) {
        TreeSpec::Raw { text }
      } else {
        TreeSpec::Original { text, name: "big.js".into() }
      };
      tree = match rng.below(3) {
        0 => big,
        1 => TreeSpec::Concat { children: vec![tree, big], how: crate::spec::ConcatHow::New },
        _ => TreeSpec::Concat { children: vec![big, tree], how: crate::spec::ConcatHow::AddLater },
      };
    }
    if !ascii && rng.below(4000) == 0 {
      // huge-leaf swarm mode (1 in 4000 of the non-ASCII cases): a text of a
      // little more than 1 MiB made of 2- and 3-byte characters after 0-2
      // ASCII lead bytes, so that a character straddles the 2^20 mark in most
      // alignments; often below a ReplaceSource
      let mut text = "ab"[..rng.usize_below(3)].to_string();
      let unit = *rng.pick(&["é", "中", "éß", "文é"]);
      while text.len() < (1 << 20) + 64 {
        text.push_str(unit);
      }
      text.push_str("\nend;\n");
      let big = TreeSpec::Raw { text };
      tree = match rng.below(4) {
        0 => big,
        1 => TreeSpec::Concat { children: vec![big, tree], how: crate::spec::ConcatHow::New },
        _ => TreeSpec::Replace {
          inner: Box::new(big),
          calls: vec![crate::spec::ReplCall {
            start: 0,
            end: 0,
            content: (*rng.pick(&["", "x", "xy"])).to_string(),
            name: None,
            enforce: None,
            via_insert: false,
          }],
          observe_at: None,
        },
      };
    }
    if rng.chance(10) {
      // many-children swarm mode: a ConcatSource with a child count next to a
      // power of two (31 .. 1028), tiny children
      let n = crate::gen::magic_count(&mut rng, 10);
      let children = (0..n)
        .map(|i| match rng.below(8) {
          0 => TreeSpec::Raw { text: String::new() },
          1 => TreeSpec::RawString { text: "\n".into() },
          2 if !ascii => TreeSpec::RawBytes { bytes: vec![0xff] },
          3 => TreeSpec::Original { text: format!("{};", i % 10), name: "a.js".into() },
          _ => TreeSpec::Raw { text: std::char::from_digit((i % 36) as u32, 36).unwrap().to_string() },
        })
        .collect();
      let wide = TreeSpec::Concat {
        children,
        how: if rng.chance(500) { crate::spec::ConcatHow::New } else { crate::spec::ConcatHow::AddLater },
      };
      tree = match rng.below(3) {
        0 => wide,
        1 => TreeSpec::Concat { children: vec![tree, wide], how: crate::spec::ConcatHow::New },
        _ => TreeSpec::Cached { inner: Box::new(wide), cache_id: 900 },
      };
    }
    if rng.chance(25) {
      // reversed-range swarm mode: a ReplaceSource with one replacement whose
      // end lies before its start (the library accepts it; only the agreement
      // of the views is judged, see check_case)
      let inner_text = content(&tree).0;
      let pos = crate::gen::legal_positions(&inner_text);
      let (a, z) = (*rng.pick(&pos), *rng.pick(&pos));
      if a != z {
        let mut calls = crate::gen::gen_calls(&mut rng, &inner_text, 3, ascii);
        let at = rng.usize_below(calls.len() + 1);
        calls.insert(
          at,
          crate::spec::ReplCall {
            start: a.max(z),
            end: a.min(z),
            content: crate::gen::gen_text(&mut rng, 4, ascii),
            name: None,
            enforce: None,
            via_insert: false,
          },
        );
        let rev = TreeSpec::Replace { inner: Box::new(tree.clone()), calls, observe_at: None };
        tree = match rng.below(3) {
          0 => rev,
          1 => TreeSpec::Concat { children: vec![rev, TreeSpec::Raw { text: "t".into() }], how: crate::spec::ConcatHow::New },
          _ => TreeSpec::Cached { inner: Box::new(rev), cache_id: 901 },
        };
      }
    }
    let n_mixed = rng.usize_below(4);
    let mixed = (0..n_mixed).map(|_| crate::conc::gen_writer_plan(&mut rng)).collect();
    let len = content(&tree).1.len() as u64;
    let k = if len == 0 { 0 } else { rng.below(len) };
    let first_plans = vec![
      // succeeds, but in fragments and with interruptions
      WriterPlan {
        max_chunk: 1 + rng.below(5) as u32,
        eintr_every: if rng.chance(600) { 1 + rng.below(3) as u32 } else { 0 },
        eintr_burst: 1 + rng.below(2) as u32,
        vectored: rng.chance(400),
        ..Default::default()
      },
      match rng.below(4) {
        // fails for good at k
        0 => WriterPlan { fail_at: Some(k), max_chunk: rng.below(4) as u32, fail_kind: if rng.chance(400) { FailKind::WouldBlock } else { FailKind::StorageFull }, ..Default::default() },
        // the sink is full at k
        1 => WriterPlan { zero_at: Some(k), max_chunk: rng.below(4) as u32, ..Default::default() },
        // fails once at k, then accepts again
        2 => WriterPlan { fail_at: Some(k), transient: true, max_chunk: rng.below(4) as u32, fail_kind: if rng.chance(600) { FailKind::WouldBlock } else { FailKind::TimedOut }, ..Default::default() },
        // one interrupted call, whole-buffer writes otherwise
        _ => WriterPlan { eintr_every: 2, eintr_burst: 1, ..Default::default() },
      },
    ];
    C07Case {
      kind: "views".into(),
      tree,
      max_chunk: 1 + rng.below(7) as u32,
      eintr_every: 1 + rng.below(3) as u32,
      eintr_burst: 1 + rng.below(3) as u32,
      mixed,
      only_plan: None,
      first_plans,
    }
  }

  fn report(&self, index: u64, case: &C07Case, res: (Vec<Violation>, Counters, bool, Option<WriterPlan>)) -> RunReport {
    let (violations, counters, skipped, bad_plan) = res;
    let mut c = case.clone();
    if bad_plan.is_some() {
      c.only_plan = bad_plan;
    }
    let case_hash = str_hash(&serde_json::to_string(&case.tree).unwrap_or_default());
    let mut oh = case_hash;
    for v in &violations {
      oh = splitmix64(oh ^ str_hash(&v.kind) ^ str_hash(&v.detail));
    }
    oh = splitmix64(oh ^ counters.0.get("fault_writer_runs").copied().unwrap_or(0));
    let (text, _) = content(&case.tree);
    RunReport {
      index,
      violations,
      counters,
      log_hash: case_hash,
      case_hash,
      // non-trivial: a composite (not a bare leaf) with non-empty content
      nontrivial: case.tree.node_count() > 1 && !text.is_empty() && !skipped,
      skipped,
      case: serde_json::to_value(&c).unwrap(),
      outcome_hash: oh,
      site_pairs: Default::default(),
    }
  }
}

impl Property for C07 {
  fn id(&self) -> &'static str {
    "C07"
  }
  fn level(&self) -> &'static str {
    "fault_enumeration"
  }
  fn run_one(&self, seed: u64, index: u64) -> RunReport {
    let case = self.generate(seed, index);
    let res = check_case(&case);
    self.report(index, &case, res)
  }
  fn case_of(&self, seed: u64, index: u64) -> Value {
    serde_json::to_value(self.generate(seed, index)).unwrap()
  }
  fn replay(&self, case: &Value, _keep_trace: bool) -> (RunReport, Vec<String>) {
    let c: C07Case = serde_json::from_value(case.clone()).unwrap_or_else(|e| {
      eprintln!("HARNESS-ERROR: replay case does not parse: {}", e);
      std::process::exit(2);
    });
    let res = check_case(&c);
    (self.report(0, &c, res), vec![])
  }
  fn shrink(&self, case: &Value, kind: &str) -> (Value, Value) {
    let orig: C07Case = match serde_json::from_value(case.clone()) {
      Ok(c) => c,
      Err(_) => return (case.clone(), json!(null)),
    };
    let from = json!({"nodes": orig.tree.node_count(), "bytes": content(&orig.tree).1.len()});
    let mut cur = orig;
    let mut budget = 300;
    'outer: loop {
      for t in tree_shrinks(&cur.tree) {
        if budget == 0 {
          break 'outer;
        }
        budget -= 1;
        // shrinking changes the length, so enumerate all offsets again
        let cand = C07Case {
          tree: t,
          only_plan: None,
          ..cur.clone()
        };
        let (v, _, _, bad) = check_case(&cand);
        if v.iter().any(|x| x.kind == kind) {
          cur = cand;
          cur.only_plan = bad;
          continue 'outer;
        }
      }
      break;
    }
    (serde_json::to_value(&cur).unwrap(), from)
  }
  fn rule(&self) -> String {
    "case = one source tree over all eight source types (both binary leaf types with invalid UTF-8, ConcatSource built by new / add-later / nested typed, ReplaceSource, CachedSource, user-defined and re-boxed children) drawn from splitmix(VERIF_SEED, run index). Per tree: the four views are compared with a structural content model, then to_writer is executed once per failure offset k in 0..=len+1 in five modes (whole-buffer, short writes — for odd k into a sink that implements write_vectored itself —, short writes + EINTR bursts, a transient failure after which the sink accepts again, Ok(0) at k) plus fragmentation-only plans (also seven scatter/gather sinks accepting 1..7 bytes per call) and seeded mixed plans; exhaustive in k per tree for trees up to 600 bytes (3 % of the trees carry an 8-20 KiB leaf and use the offsets around every power-of-two boundary plus a seeded sample), trees sampled (1% are a ConcatSource of 31 .. 1028 tiny children, the count next to a power of two; 1 in 4000 non-ASCII trees carries a leaf of a little more than 1 MiB of multi-byte characters, often below a ReplaceSource). Histories that start with the writer: two plans (fragmented + interrupted; failing / full / transient / one EINTR) are each the first call on a fresh object of the same tree, followed by the four views and a fault-free to_writer. distinct_nontrivial = distinct composite trees with non-empty content.".into()
  }
  fn assumptions(&self) -> Vec<String> {
    vec![
      "the content model (lossy decode of binary leaves, concatenation, splice) is the reference; it shares no code with rspack-sources".into(),
      "a writer that returns Ok(0) is expected to surface as ErrorKind::WriteZero (std::io::Write::write_all contract)".into(),
      "trees are sampled; only the failure offset is enumerated exhaustively".into(),
    ]
  }
  fn real_vs_stub(&self) -> Value {
    json!({
      "real": ["all of rspack-sources, built from /repo's working tree", "std::io::Write::write_all as called by the library"],
      "simulated": ["the writer (SimWriter: short writes, EINTR bursts, hard error at byte k with a unique tag, Ok(0))"],
    })
  }
}
