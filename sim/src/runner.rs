//! Running a scenario: concurrently under the scheduler, or sequentially on
//! cold twins as a baseline.

use std::collections::BTreeMap;

use rspack_sources::BoxSource;
use serde::{Deserialize, Serialize};

use crate::{
  exec::{exec_op, Answer, ExecCtx},
  model::{canon, Canon},
  rng::Rng,
  sched::{self, run_threads, Policy, Sim, SimStats},
  spec::{Builder, Op, OpKind, TreeSpec},
};

#[derive(Clone, Debug, Serialize, Deserialize, PartialEq)]
pub struct Scenario {
  pub family: String,
  pub objects: Vec<TreeSpec>,
  pub threads: Vec<Vec<Op>>,
}

impl Scenario {
  pub fn n_ops(&self) -> usize {
    self.threads.iter().map(|t| t.len()).sum()
  }
  pub fn n_nodes(&self) -> usize {
    self.objects.iter().map(|o| o.node_count()).sum()
  }
}

#[derive(Clone, Debug, Serialize, Deserialize, PartialEq)]
pub struct Knobs {
  pub shards: u64,
  pub policy: Policy,
  pub sched_seed: u64,
  pub cb_points: bool,
  pub budget: u64,
}

impl Knobs {
  pub fn draw(rng: &mut Rng) -> Knobs {
    let horizon = *rng.pick(&[20u32, 60, 150]);
    let policy = match rng.below(10) {
      0..=4 => Policy::Walk {
        permille: *rng.pick(&[20u32, 100, 300, 600]),
      },
      5..=7 => Policy::Pct {
        depth: 1 + rng.below(3) as u32,
        horizon,
      },
      _ => Policy::Forced {
        k: 1 + rng.below(3) as u32,
        horizon,
      },
    };
    Knobs {
      shards: *rng.pick(&[2u64, 2, 4, 64]),
      policy,
      sched_seed: rng.next_u64(),
      cb_points: rng.chance(800),
      budget: 200_000,
    }
  }
}

#[derive(Clone, Debug)]
pub struct Outcome {
  /// self-deadlocks in the single-threaded final pass
  pub self_deadlocks: Vec<String>,
  pub answers: Vec<Vec<Answer>>,
  pub stats: SimStats,
  /// single-threaded observer pass over every object after the threads ended
  pub tail: Vec<Vec<Answer>>,
  pub unsafe_fails: Vec<String>,
}

pub const TAIL_OPS: [OpKind; 7] = [
  OpKind::Source,
  OpKind::Size,
  OpKind::Hash,
  OpKind::Map { columns: true },
  OpKind::Map { columns: false },
  OpKind::Stream {
    columns: true,
    abort_at: None,
  },
  OpKind::Stream {
    columns: false,
    abort_at: None,
  },
];

fn tail_pass(objs: &[&crate::exec::Dyn], consume: bool) -> Vec<Vec<Answer>> {
  // Under Miri (100-1000x slower) the final pass is reduced to the calls that
  // read cached storage: one map and both replay streams, without the
  // consumer tail (the threads' own streams ran it already).
  if cfg!(miri) {
    let ctx = ExecCtx {
      cb_points: false,
      consume: false,
      serial: 0,
    };
    let light = [
      OpKind::Map { columns: true },
      OpKind::Stream {
        columns: true,
        abort_at: None,
      },
      OpKind::Stream {
        columns: false,
        abort_at: None,
      },
    ];
    return (0..objs.len())
      .map(|i| {
        light
          .iter()
          .map(|k| exec_op(objs, i, k, &ctx).unwrap_or(Answer::NotRun))
          .collect()
      })
      .collect();
  }
  let ctx = ExecCtx {
    cb_points: false,
    consume,
    serial: 0,
  };
  (0..objs.len())
    .map(|i| {
      TAIL_OPS
        .iter()
        .map(|k| exec_op(objs, i, k, &ctx).unwrap_or(Answer::NotRun))
        .collect()
    })
    .collect()
}

pub struct RunFlags {
  pub keep_trace: bool,
  pub consume: bool,
  pub fatal_events: &'static [&'static str],
  pub do_tail: bool,
}

pub fn build_objects(scn: &Scenario, shards: u64) -> Vec<BoxSource> {
  sched::set_shards(Some(shards));
  let mut b = Builder::new();
  scn.objects.iter().map(|s| b.build(s)).collect()
}

pub fn run_concurrent(
  scn: &Scenario,
  knobs: &Knobs,
  replay: Option<Vec<(u64, usize)>>,
  flags: &RunFlags,
) -> Outcome {
  let objs = build_objects(scn, knobs.shards);
  let refs: Vec<&crate::exec::Dyn> = objs.iter().map(|o| o.as_ref()).collect();
  let out = run_concurrent_on(&refs, &scn.threads, knobs, replay, flags);
  drop(refs);
  drop(objs);
  out
}

/// Run `threads` of ops as simulated threads over already built objects.
pub fn run_concurrent_on(
  refs: &[&crate::exec::Dyn],
  threads: &[Vec<Op>],
  knobs: &Knobs,
  replay: Option<Vec<(u64, usize)>>,
  flags: &RunFlags,
) -> Outcome {
  sched::set_quiet(true);
  let _ = sched::take_unsafe_fails();
  let _ = sched::take_seq_deadlocks();
  let n = threads.len();
  let sim = Sim::new(
    n,
    &knobs.policy,
    knobs.sched_seed,
    replay,
    knobs.budget,
    flags.keep_trace,
    flags.fatal_events,
  );
  let mut answers: Vec<Vec<Answer>> = threads
    .iter()
    .map(|t| vec![Answer::NotRun; t.len()])
    .collect();
  let fails = std::sync::Mutex::new(Vec::<String>::new());
  {
    let fails = &fails;
    let sim_ref = &sim;
    let bodies: Vec<Box<dyn FnOnce(usize) + Send + '_>> = answers
      .iter_mut()
      .zip(threads.iter())
      .map(|(slot, ops)| {
        let cb_points = knobs.cb_points;
        let consume = flags.consume;
        Box::new(move |t: usize| {
          for (i, op) in ops.iter().enumerate() {
            if sim_ref.aborted() {
              break;
            }
            let ctx = ExecCtx {
              cb_points,
              consume,
              serial: (t as u64) << 32 | i as u64,
            };
            // op boundaries are schedule points too
            let started = std::panic::catch_unwind(|| sched::user_point("op.start"));
            if started.is_err() {
              break;
            }
            match exec_op(refs, op.obj, &op.kind, &ctx) {
              Ok(a) => slot[i] = a,
              Err(()) => break,
            }
          }
          let f = sched::take_unsafe_fails();
          if !f.is_empty() {
            fails.lock().unwrap().extend(f.iter().map(|s| s.to_string()));
          }
        }) as Box<dyn FnOnce(usize) + Send + '_>
      })
      .collect();
    run_threads(&sim, Some(knobs.shards), bodies);
  }
  let stats = sim.stats();
  let tail = if flags.do_tail && stats.abort.is_none() {
    tail_pass(refs, flags.consume)
  } else {
    vec![]
  };
  let mut unsafe_fails = fails.into_inner().unwrap();
  unsafe_fails.extend(sched::take_unsafe_fails().iter().map(|s| s.to_string()));
  sched::flush_unsafe_hits();
  Outcome {
    self_deadlocks: sched::take_seq_deadlocks(),
    answers,
    stats,
    tail,
    unsafe_fails,
  }
}

/// Sequential execution on freshly built (cold) objects, in the given order of
/// `(thread, op index)` pairs. Ops not in `order` stay `NotRun`.
pub struct SeqOutcome {
  pub answers: Vec<Vec<Answer>>,
  pub tail: Vec<Vec<Answer>>,
  pub unsafe_fails: Vec<String>,
  pub events: BTreeMap<String, u64>,
  /// a single-threaded call waited forever for a lock (left held / re-entered)
  pub self_deadlocks: Vec<String>,
}

pub fn run_sequential(
  scn: &Scenario,
  shards: u64,
  order: &[(usize, usize)],
  consume: bool,
  do_tail: bool,
) -> SeqOutcome {
  sched::set_quiet(true);
  let _ = sched::take_unsafe_fails();
  let _ = sched::take_seq_events();
  let _ = sched::take_seq_deadlocks();
  let objs = build_objects(scn, shards);
  let refs: Vec<&crate::exec::Dyn> = objs.iter().map(|o| o.as_ref()).collect();
  let mut answers: Vec<Vec<Answer>> = scn
    .threads
    .iter()
    .map(|t| vec![Answer::NotRun; t.len()])
    .collect();
  for (t, i) in order {
    let op = &scn.threads[*t][*i];
    let ctx = ExecCtx {
      cb_points: false,
      consume,
      serial: (*t as u64) << 32 | *i as u64,
    };
    answers[*t][*i] = exec_op(&refs, op.obj, &op.kind, &ctx).unwrap_or(Answer::NotRun);
  }
  let tail = if do_tail { tail_pass(&refs, consume) } else { vec![] };
  let unsafe_fails = sched::take_unsafe_fails().iter().map(|s| s.to_string()).collect();
  let events = sched::take_seq_events()
    .into_iter()
    .map(|(k, v)| (k.to_string(), v))
    .collect();
  drop(refs);
  drop(objs);
  sched::flush_unsafe_hits();
  let self_deadlocks = sched::take_seq_deadlocks();
  SeqOutcome {
    answers,
    tail,
    unsafe_fails,
    events,
    self_deadlocks,
  }
}

/// The fixed family of sequential orders whose answers a concurrent run may
/// produce: each op alone, each thread alone, all thread orders back to
/// back, one round-robin interleaving.
pub fn sequential_family(scn: &Scenario) -> Vec<Vec<(usize, usize)>> {
  let n = scn.threads.len();
  let mut fam: Vec<Vec<(usize, usize)>> = vec![];
  for (t, ops) in scn.threads.iter().enumerate() {
    for i in 0..ops.len() {
      fam.push(vec![(t, i)]);
    }
    if ops.len() > 1 {
      fam.push((0..ops.len()).map(|i| (t, i)).collect());
    }
  }
  // permutations of threads
  let mut perm: Vec<usize> = (0..n).collect();
  let mut perms = vec![];
  permute(&mut perm, 0, &mut perms);
  if n > 1 {
    for p in perms {
      let mut order = vec![];
      for t in p {
        for i in 0..scn.threads[t].len() {
          order.push((t, i));
        }
      }
      fam.push(order);
    }
    // round robin
    let max = scn.threads.iter().map(|t| t.len()).max().unwrap_or(0);
    let mut rr = vec![];
    for i in 0..max {
      for t in 0..n {
        if i < scn.threads[t].len() {
          rr.push((t, i));
        }
      }
    }
    fam.push(rr);
  }
  fam
}

fn permute(xs: &mut Vec<usize>, k: usize, out: &mut Vec<Vec<usize>>) {
  if k == xs.len() {
    out.push(xs.clone());
    return;
  }
  for i in k..xs.len() {
    xs.swap(k, i);
    permute(xs, k + 1, out);
    xs.swap(k, i);
  }
}

// ---------------------------------------------------------------------------
// comparable keys of answers
// ---------------------------------------------------------------------------

/// What of an answer is compared. `attribution = false` drops mapping
/// attribution (non-ASCII trees, or gated scenarios).
#[derive(Clone, Debug, PartialEq, Eq, PartialOrd, Ord, Serialize, Deserialize)]
pub enum Key {
  Text(String),
  Bytes(Vec<u8>),
  Size(u64),
  Hash(u64),
  Bool(bool),
  MapNone,
  Map(Option<Canon>),
  Stream {
    text: String,
    end: (u32, u32),
    canon: Option<Canon>,
  },
  Aborted,
  Written { ok: bool, accepted: Vec<u8> },
  Panicked,
  NotRun,
}

pub fn columns_of(kind: &OpKind) -> bool {
  match kind {
    OpKind::Map { columns } | OpKind::Stream { columns, .. } => *columns,
    OpKind::CloneThen { then, .. } | OpKind::CloneEditObserve { then, .. } | OpKind::ChildFault { then, .. } => columns_of(then),
    _ => true,
  }
}

/// `positions = false` (trees with multi-byte or binary content, where byte,
/// char and UTF-16 columns differ) also drops the generated-end information.
pub fn key_of(ans: &Answer, kind: &OpKind, text: &str, attribution: bool, positions: bool) -> Key {
  let columns = columns_of(kind);
  match ans {
    Answer::Text(t) => Key::Text(t.clone()),
    Answer::Bytes(b) => Key::Bytes(b.clone()),
    Answer::Size(n) => Key::Size(*n),
    Answer::Hash(h) => Key::Hash(*h),
    Answer::Bool(b) => Key::Bool(*b),
    // nothing about a map is comparable when columns have no agreed unit
    Answer::Map(_) if !positions => Key::Map(None),
    Answer::Map(None) => Key::MapNone,
    // a map without a single mapped segment attributes nothing: same as no map
    Answer::Map(Some(m)) if m.segs.iter().all(|s| s.attr.is_none()) => Key::MapNone,
    Answer::Map(Some(m)) => Key::Map(attribution.then(|| canon(text, &m.segs, columns))),
    Answer::Stream(s) => Key::Stream {
      text: s.text.clone(),
      end: if positions { s.end } else { (0, 0) },
      canon: attribution.then(|| canon(&s.text, &s.segs, columns)),
    },
    Answer::Aborted { .. } => Key::Aborted,
    Answer::Written { ok, accepted, .. } => Key::Written {
      ok: *ok,
      accepted: accepted.clone(),
    },
    Answer::Panicked(_) => Key::Panicked,
    Answer::NotRun => Key::NotRun,
  }
}
