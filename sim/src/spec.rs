//! Scenario values: explicit, serialisable descriptions of source trees,
//! operations and fault plans. A replay file contains these verbatim.

use std::{
  borrow::Cow,
  collections::BTreeMap,
  hash::{Hash, Hasher},
};

use rspack_sources::{
  stream_chunks::{GeneratedInfo, OnChunk, OnName, OnSource, StreamChunks},
  BoxSource, CachedSource, ConcatSource, MapOptions, OriginalSource,
  RawBufferSource, RawSource, RawStringSource, ReplaceSource,
  ReplacementEnforce, Rope, Source, SourceExt, SourceMap, SourceMapSource,
  SourceMapSourceOptions,
};
use serde::{Deserialize, Serialize};

use crate::sched::{fault_point, user_point};

#[derive(Clone, Debug, Serialize, Deserialize, PartialEq, Eq, Hash)]
pub enum Enforce {
  Pre,
  Normal,
  Post,
}

impl Enforce {
  pub fn to_lib(&self) -> ReplacementEnforce {
    match self {
      Enforce::Pre => ReplacementEnforce::Pre,
      Enforce::Normal => ReplacementEnforce::Normal,
      Enforce::Post => ReplacementEnforce::Post,
    }
  }
  pub fn rank(&self) -> u8 {
    match self {
      Enforce::Pre => 0,
      Enforce::Normal => 1,
      Enforce::Post => 2,
    }
  }
}

/// One mutating call on a ReplaceSource.
#[derive(Clone, Debug, Serialize, Deserialize, PartialEq, Eq, Hash)]
pub struct ReplCall {
  pub start: u32,
  pub end: u32,
  pub content: String,
  pub name: Option<String>,
  /// `None`: `replace`/`insert`; `Some(e)`: the `_with_enforce` variant.
  pub enforce: Option<Enforce>,
  /// use `insert*` (only meaningful when start == end)
  pub via_insert: bool,
}

impl ReplCall {
  pub fn enforce_rank(&self) -> u8 {
    self.enforce.as_ref().map_or(1, |e| e.rank())
  }
}

/// A source map given as explicit fields.
#[derive(Clone, Debug, Serialize, Deserialize, PartialEq, Eq, Hash)]
pub struct MapSpec {
  pub mappings: String,
  pub sources: Vec<String>,
  pub sources_content: Vec<String>,
  pub names: Vec<String>,
  pub file: Option<String>,
  pub source_root: Option<String>,
  pub debug_id: Option<String>,
}

impl MapSpec {
  pub fn build(&self) -> SourceMap {
    let mut m = SourceMap::new(
      self.mappings.clone(),
      self.sources.clone(),
      self.sources_content.clone(),
      self.names.clone(),
    );
    m.set_file(self.file.clone());
    m.set_source_root(self.source_root.clone());
    m.set_debug_id(self.debug_id.clone());
    m
  }
}

#[derive(Clone, Debug, Serialize, Deserialize, PartialEq, Eq, Hash)]
pub struct InnerMapSpec {
  pub original_source: Option<String>,
  /// `None`: only `original_source` / `remove_original_source` are set
  /// (they are then unused by every observer but still part of the value)
  pub inner_map: Option<MapSpec>,
  pub remove_original_source: bool,
}

#[derive(Clone, Debug, Serialize, Deserialize, PartialEq, Eq, Hash)]
pub enum ConcatHow {
  /// `ConcatSource::new(children as BoxSource)`
  New,
  /// `ConcatSource::new([first])` then `add` the rest one by one
  AddLater,
  /// children that are themselves Concat are passed as typed `ConcatSource`
  /// values (and therefore flattened)
  NestedTyped,
  /// like `NestedTyped`, but the value is observed (size, source, hash, ==)
  /// after every `add`: a value under construction that is already in use
  AddObserved,
  /// every child is added by `add` as its *concrete* type (`RawSource`,
  /// `RawStringSource`, `RawBufferSource`, `OriginalSource`, typed
  /// `ConcatSource`; everything else as `BoxSource`)
  AddTyped,
  /// like `AddTyped`, but other owners are alive while the value is built: a
  /// clone of the half-built composite is taken after every `add`, and a second
  /// handle to every boxed child is held across its `add`; all of them are
  /// dropped when the build ends. What was built must not depend on that.
  AddHeld,
}

#[derive(Clone, Debug, Serialize, Deserialize, PartialEq, Eq, Hash)]
pub enum TreeSpec {
  Raw { text: String },
  RawBytes { bytes: Vec<u8> },
  RawString { text: String },
  RawBuffer { bytes: Vec<u8> },
  Original { text: String, name: String },
  SourceMap {
    text: String,
    name: String,
    map: MapSpec,
    inner: Option<InnerMapSpec>,
  },
  Concat { children: Vec<TreeSpec>, how: ConcatHow },
  Replace {
    inner: Box<TreeSpec>,
    calls: Vec<ReplCall>,
    /// pre-history: after this many calls the builder observes the value once
    /// (`source()`, which sorts), then applies the remaining calls — so the
    /// shared value starts with a non-empty, stale sorted index
    #[serde(default)]
    observe_at: Option<u32>,
  },
  /// Nodes with the same `cache_id` are clones of one `CachedSource` and share
  /// its caches; the first one built defines the wrapped tree.
  Cached { inner: Box<TreeSpec>, cache_id: u32 },
  /// A user-defined child source (harness code) delegating to `inner`, with
  /// schedule points on entry/exit of `map`/`stream_chunks` and per chunk.
  User { inner: Box<TreeSpec>, id: u32 },
  /// Type-erase once more: `BoxSource` wrapped as a `Box<dyn Source>` value.
  Boxed { inner: Box<TreeSpec> },
}

impl TreeSpec {
  pub fn node_count(&self) -> usize {
    match self {
      TreeSpec::Concat { children, .. } => {
        1 + children.iter().map(|c| c.node_count()).sum::<usize>()
      }
      TreeSpec::Replace { inner, .. }
      | TreeSpec::Cached { inner, .. }
      | TreeSpec::User { inner, .. }
      | TreeSpec::Boxed { inner } => 1 + inner.node_count(),
      _ => 1,
    }
  }

  pub fn contains(&self, pred: &dyn Fn(&TreeSpec) -> bool) -> bool {
    if pred(self) {
      return true;
    }
    match self {
      TreeSpec::Concat { children, .. } => children.iter().any(|c| c.contains(pred)),
      TreeSpec::Replace { inner, .. }
      | TreeSpec::Cached { inner, .. }
      | TreeSpec::User { inner, .. }
      | TreeSpec::Boxed { inner } => inner.contains(pred),
      _ => false,
    }
  }

  pub fn kind(&self) -> &'static str {
    match self {
      TreeSpec::Raw { .. } => "Raw",
      TreeSpec::RawBytes { .. } => "RawBytes",
      TreeSpec::RawString { .. } => "RawString",
      TreeSpec::RawBuffer { .. } => "RawBuffer",
      TreeSpec::Original { .. } => "Original",
      TreeSpec::SourceMap { .. } => "SourceMap",
      TreeSpec::Concat { .. } => "Concat",
      TreeSpec::Replace { .. } => "Replace",
      TreeSpec::Cached { .. } => "Cached",
      TreeSpec::User { .. } => "User",
      TreeSpec::Boxed { .. } => "Boxed",
    }
  }

  /// Short structural signature, e.g. `Cached(Concat(Original,Raw))`.
  pub fn shape(&self) -> String {
    match self {
      TreeSpec::Concat { children, .. } => format!(
        "Concat({})",
        children.iter().map(|c| c.shape()).collect::<Vec<_>>().join(",")
      ),
      TreeSpec::Replace { inner, calls, .. } => {
        format!("Replace[{}]({})", calls.len(), inner.shape())
      }
      TreeSpec::Cached { inner, cache_id } => {
        format!("Cached#{}({})", cache_id, inner.shape())
      }
      TreeSpec::User { inner, .. } => format!("User({})", inner.shape()),
      TreeSpec::Boxed { inner } => format!("Boxed({})", inner.shape()),
      other => other.kind().to_string(),
    }
  }
}

// ---------------------------------------------------------------------------
// user-defined child source
// ---------------------------------------------------------------------------

/// A `Source` implemented outside the crate. It delegates to a real inner
/// source and announces schedule points, which lets the scheduler suspend a
/// thread *inside* a composite's call into its child (e.g. inside
/// `CachedSource::map`'s check-then-insert window or while
/// `CachedSource::stream_chunks` holds its shard lock).
/// `UserSrc::id` bit that makes the source renumber its sources / names.
pub const PERMUTE_BIT: u32 = 0x4000;
/// `UserSrc::id` bit that makes `size()` an estimate (17 bytes too large): a
/// safe `impl Source` may answer anything there, and no unsafe code in the
/// library may rely on it.
pub const ESTIMATE_BIT: u32 = 0x2000;

#[derive(Clone, Debug)]
pub struct UserSrc {
  pub inner: BoxSource,
  pub id: u32,
}

impl Source for UserSrc {
  fn source(&self) -> Cow<str> {
    fault_point();
    self.inner.source()
  }
  fn rope(&self) -> Rope<'_> {
    fault_point();
    self.inner.rope()
  }
  fn buffer(&self) -> Cow<[u8]> {
    fault_point();
    self.inner.buffer()
  }
  fn size(&self) -> usize {
    fault_point();
    self.inner.size() + if self.id & ESTIMATE_BIT != 0 { 17 } else { 0 }
  }
  fn map(&self, options: &MapOptions) -> Option<SourceMap> {
    user_point("user.map.enter");
    fault_point();
    let m = if self.id & PERMUTE_BIT != 0 {
      // consistent with its own (renumbered) stream
      let mut sources: Vec<String> = vec![];
      let mut contents: Vec<String> = vec![];
      let mut names: Vec<String> = vec![];
      let mut mappings = vec![];
      self.stream_chunks(
        options,
        &mut |_, mapping| mappings.push(mapping),
        &mut |i, name, content| {
          let i = i as usize;
          if sources.len() <= i {
            sources.resize(i + 1, String::new());
            contents.resize(i + 1, String::new());
          }
          sources[i] = name.to_string();
          contents[i] = content.map(|c| c.to_string()).unwrap_or_default();
        },
        &mut |i, name| {
          let i = i as usize;
          if names.len() <= i {
            names.resize(i + 1, String::new());
          }
          names[i] = name.to_string();
        },
      );
      let encoded = rspack_sources::encode_mappings(mappings.into_iter());
      (!encoded.is_empty()).then(|| SourceMap::new(encoded, sources, contents, names))
    } else {
      self.inner.map(options)
    };
    user_point("user.map.exit");
    fault_point();
    m
  }
  fn to_writer(&self, writer: &mut dyn std::io::Write) -> std::io::Result<()> {
    fault_point();
    self.inner.to_writer(writer)
  }
}

impl StreamChunks for UserSrc {
  fn stream_chunks<'a>(
    &'a self,
    options: &MapOptions,
    on_chunk: OnChunk<'_, 'a>,
    on_source: OnSource<'_, 'a>,
    on_name: OnName<'_, 'a>,
  ) -> GeneratedInfo {
    user_point("user.stream.enter");
    fault_point();
    // ids with this bit set renumber their sources and names (i -> i ^ 1): a
    // user-defined source may number and announce them in any order, e.g.
    // index 1 before index 0, or leave index 0 unused
    let permute = self.id & PERMUTE_BIT != 0;
    let info = if permute {
      self.inner.stream_chunks(
        options,
        &mut |chunk, mut mapping| {
          user_point("user.stream.chunk");
          fault_point();
          if let Some(o) = mapping.original.as_mut() {
            o.source_index ^= 1;
            if let Some(n) = o.name_index.as_mut() {
              *n ^= 1;
            }
          }
          on_chunk(chunk, mapping)
        },
        &mut |i, name, content| on_source(i ^ 1, name, content),
        &mut |i, name| on_name(i ^ 1, name),
      )
    } else {
      self.inner.stream_chunks(
        options,
        &mut |chunk, mapping| {
          user_point("user.stream.chunk");
          fault_point();
          on_chunk(chunk, mapping)
        },
        on_source,
        on_name,
      )
    };
    user_point("user.stream.exit");
    fault_point();
    info
  }
}

impl Hash for UserSrc {
  fn hash<H: Hasher>(&self, state: &mut H) {
    fault_point();
    "UserSrc".hash(state);
    self.id.hash(state);
    self.inner.hash(state);
  }
}

impl PartialEq for UserSrc {
  fn eq(&self, other: &Self) -> bool {
    self.id == other.id && self.inner.as_ref() == other.inner.as_ref()
  }
}
impl Eq for UserSrc {}

/// A user-defined newtype source holding a library source *by value*: the
/// wrapper and its field live at the same address but are different types
/// (and hash differently), so behind `dyn Source` they must not be equal.
#[repr(transparent)]
#[derive(Clone, Debug)]
pub struct Tagged<T>(pub T);

impl<T: Source + Hash + PartialEq + Eq + Clone + 'static> Source for Tagged<T> {
  fn source(&self) -> Cow<str> {
    self.0.source()
  }
  fn rope(&self) -> Rope<'_> {
    self.0.rope()
  }
  fn buffer(&self) -> Cow<[u8]> {
    self.0.buffer()
  }
  fn size(&self) -> usize {
    self.0.size()
  }
  fn map(&self, options: &MapOptions) -> Option<SourceMap> {
    self.0.map(options)
  }
  fn to_writer(&self, writer: &mut dyn std::io::Write) -> std::io::Result<()> {
    self.0.to_writer(writer)
  }
}

impl<T: Source> StreamChunks for Tagged<T> {
  fn stream_chunks<'a>(
    &'a self,
    options: &MapOptions,
    on_chunk: OnChunk<'_, 'a>,
    on_source: OnSource<'_, 'a>,
    on_name: OnName<'_, 'a>,
  ) -> GeneratedInfo {
    self.0.stream_chunks(options, on_chunk, on_source, on_name)
  }
}

impl<T: Hash> Hash for Tagged<T> {
  fn hash<H: Hasher>(&self, state: &mut H) {
    "Tagged".hash(state);
    self.0.hash(state);
  }
}

impl<T: PartialEq> PartialEq for Tagged<T> {
  fn eq(&self, other: &Self) -> bool {
    self.0 == other.0
  }
}
impl<T: Eq> Eq for Tagged<T> {}

/// Directed probe for the `dyn Source` comparison: a newtype source against
/// the field it wraps (same address, different type, different hash) and
/// against itself. Returns a description of what is wrong, if anything.
pub fn aliased_newtype_probe() -> Option<String> {
  type DynS = dyn Source + 'static;
  fn h(x: &DynS) -> u64 {
    use std::hash::BuildHasher;
    std::hash::BuildHasherDefault::<rustc_hash::FxHasher>::default().hash_one(x)
  }
  fn check_alias(outer: &DynS, field: &DynS) -> Option<String> {
    if outer != outer {
      return Some("a newtype source behind dyn does not equal itself".into());
    }
    for (a, b, what) in [(outer, field, "wrapper == field"), (field, outer, "field == wrapper")] {
      if a == b && h(a) != h(b) {
        return Some(format!(
          "{} is true behind dyn Source for a newtype source and the field it wraps (same address, different types), but their hashes differ ({:x} vs {:x})",
          what,
          h(a),
          h(b)
        ));
      }
    }
    None
  }
  let t = Tagged(rspack_sources::RawStringSource::from("let a = 1;\n".to_string()));
  if let Some(d) = check_alias(&t, &t.0) {
    return Some(format!("Tagged<RawStringSource>: {}", d));
  }
  let t = Tagged(rspack_sources::OriginalSource::new("let a = 1;\n", "a.js"));
  if let Some(d) = check_alias(&t, &t.0) {
    return Some(format!("Tagged<OriginalSource>: {}", d));
  }
  None
}

// ---------------------------------------------------------------------------
// building real sources from specs
// ---------------------------------------------------------------------------

/// Builds real rspack-sources values from specs. One builder = one family of
/// objects that share `CachedSource` caches by `cache_id`; a second builder
/// over the same specs yields *twins* with cold caches.
#[derive(Default)]
pub struct Builder {
  caches: BTreeMap<u32, CachedSource<BoxSource>>,
  /// maps interned by their four buffers: specs that differ only in file /
  /// sourceRoot / debugId are built as *clones* of one map with the field set
  /// afterwards (`let mut m = src.map(); m.set_file(..)`), so they share their
  /// `Arc` buffers like maps do in a bundler
  maps: BTreeMap<(String, Vec<String>, Vec<String>, Vec<String>), SourceMap>,
}

fn apply_calls(r: &mut ReplaceSource<BoxSource>, calls: &[ReplCall]) {
  for c in calls {
    apply_call(r, c);
  }
}

pub fn apply_call<T: Source>(r: &mut ReplaceSource<T>, c: &ReplCall) {
  let name = c.name.as_deref();
  match (&c.enforce, c.via_insert && c.start == c.end) {
    (None, false) => r.replace(c.start, c.end, &c.content, name),
    (None, true) => r.insert(c.start, &c.content, name),
    (Some(e), false) => {
      r.replace_with_enforce(c.start, c.end, &c.content, name, e.to_lib())
    }
    (Some(e), true) => {
      r.insert_with_enforce(c.start, &c.content, name, e.to_lib())
    }
  }
}

impl Builder {
  pub fn new() -> Self {
    Self::default()
  }

  pub fn build_map(&mut self, spec: &MapSpec) -> SourceMap {
    let key = (
      spec.mappings.clone(),
      spec.sources.clone(),
      spec.sources_content.clone(),
      spec.names.clone(),
    );
    let base = self
      .maps
      .entry(key)
      .or_insert_with(|| {
        SourceMap::new(
          spec.mappings.clone(),
          spec.sources.clone(),
          spec.sources_content.clone(),
          spec.names.clone(),
        )
      })
      .clone();
    let mut m = base;
    m.set_file(spec.file.clone());
    m.set_source_root(spec.source_root.clone());
    m.set_debug_id(spec.debug_id.clone());
    m
  }

  fn build_concat(&mut self, children: &[TreeSpec], how: &ConcatHow) -> ConcatSource {
    match how {
      ConcatHow::New => {
        let kids: Vec<BoxSource> = children.iter().map(|c| self.build(c)).collect();
        ConcatSource::new(kids)
      }
      ConcatHow::AddLater => {
        let mut it = children.iter();
        let mut concat = match it.next() {
          Some(first) => ConcatSource::new([self.build(first)]),
          None => ConcatSource::default(),
        };
        for c in it {
          concat.add(self.build(c));
        }
        concat
      }
      ConcatHow::AddTyped | ConcatHow::AddHeld => {
        let held = matches!(how, ConcatHow::AddHeld);
        let mut owners: Vec<ConcatSource> = vec![];
        let mut handles: Vec<BoxSource> = vec![];
        let mut concat = ConcatSource::default();
        for (pos, c) in children.iter().enumerate() {
          match c {
            // a nested composite at an odd position is handed over behind a
            // `BoxSource` (`concat.add(inner.boxed())`), with a second handle
            // to the box alive in the held mode
            TreeSpec::Concat { children, how } if pos % 2 == 1 => {
              let b = self.build_concat(children, how).boxed();
              if held {
                handles.push(b.clone());
              }
              concat.add(b);
            }
            TreeSpec::Concat { children, how } => {
              let inner = self.build_concat(children, how);
              if held {
                owners.push(inner.clone());
              }
              concat.add(inner);
            }
            TreeSpec::Raw { text } => concat.add(RawSource::from(text.clone())),
            TreeSpec::RawBytes { bytes } => concat.add(RawSource::from(bytes.clone())),
            TreeSpec::RawString { text } => concat.add(RawStringSource::from(text.clone())),
            TreeSpec::RawBuffer { bytes } => concat.add(RawBufferSource::from(bytes.clone())),
            TreeSpec::Original { text, name } => {
              concat.add(OriginalSource::new(text.clone(), name.clone()))
            }
            other => {
              let b = self.build(other);
              if held {
                handles.push(b.clone());
              }
              concat.add(b);
            }
          }
          if held {
            owners.push(concat.clone());
          }
        }
        drop(owners);
        drop(handles);
        concat
      }
      ConcatHow::NestedTyped | ConcatHow::AddObserved => {
        let observed = matches!(how, ConcatHow::AddObserved);
        let mut concat = ConcatSource::default();
        for c in children {
          match c {
            TreeSpec::Concat { children, how } => {
              let inner = self.build_concat(children, how);
              concat.add(inner);
            }
            other => concat.add(self.build(other)),
          }
          if observed {
            let _ = std::panic::catch_unwind(std::panic::AssertUnwindSafe(|| {
              let _ = concat.size();
              let _ = concat.source().len();
              let _ = crate::exec::fx_hash(&concat);
              #[allow(clippy::eq_op)]
              let _ = concat == concat;
            }));
          }
        }
        concat
      }
    }
  }

  pub fn build(&mut self, spec: &TreeSpec) -> BoxSource {
    match spec {
      TreeSpec::Raw { text } => RawSource::from(text.clone()).boxed(),
      TreeSpec::RawBytes { bytes } => RawSource::from(bytes.clone()).boxed(),
      TreeSpec::RawString { text } => RawStringSource::from(text.clone()).boxed(),
      TreeSpec::RawBuffer { bytes } => RawBufferSource::from(bytes.clone()).boxed(),
      TreeSpec::Original { text, name } => {
        OriginalSource::new(text.clone(), name.clone()).boxed()
      }
      TreeSpec::SourceMap {
        text,
        name,
        map,
        inner,
      } => SourceMapSource::new(SourceMapSourceOptions {
        value: text.clone(),
        name: name.clone(),
        source_map: self.build_map(map),
        original_source: inner.as_ref().and_then(|i| i.original_source.clone()),
        inner_source_map: inner.as_ref().and_then(|i| i.inner_map.as_ref().map(|m| self.build_map(m))),
        remove_original_source: inner
          .as_ref()
          .is_some_and(|i| i.remove_original_source),
      })
      .boxed(),
      TreeSpec::Concat { children, how } => self.build_concat(children, how).boxed(),
      TreeSpec::Replace {
        inner,
        calls,
        observe_at,
      } => {
        let mut r = ReplaceSource::new(self.build(inner));
        match observe_at {
          Some(k) if (*k as usize) <= calls.len() => {
            apply_calls(&mut r, &calls[..*k as usize]);
            // observe every view once (fills whatever the value memoises)
            // (a panic here is not the builder's business: the checks that
            // use the value will meet it again inside their own guards)
            let _ = std::panic::catch_unwind(std::panic::AssertUnwindSafe(|| {
              let _ = r.source();
              let _ = r.size();
              let _ = r.buffer();
              let _ = r.rope().len();
              let _ = crate::exec::fx_hash(&r);
            }));
            apply_calls(&mut r, &calls[*k as usize..]);
          }
          _ => apply_calls(&mut r, calls),
        }
        r.boxed()
      }
      TreeSpec::Cached { inner, cache_id } => {
        if let Some(c) = self.caches.get(cache_id) {
          return c.clone().boxed();
        }
        let c = CachedSource::new(self.build(inner));
        self.caches.insert(*cache_id, c.clone());
        c.boxed()
      }
      TreeSpec::User { inner, id } => UserSrc {
        inner: self.build(inner),
        id: *id,
      }
      .boxed(),
      TreeSpec::Boxed { inner } => {
        // Arc<dyn Source> is itself a Source; box it once more
        let b: BoxSource = self.build(inner);
        b.boxed()
      }
    }
  }

  /// A typed `ReplaceSource` (owner can keep mutating it between phases).
  pub fn build_replace_owner(
    &mut self,
    inner: &TreeSpec,
    calls: &[ReplCall],
  ) -> ReplaceSource<BoxSource> {
    let mut r = ReplaceSource::new(self.build(inner));
    apply_calls(&mut r, calls);
    r
  }
}

// ---------------------------------------------------------------------------
// operations
// ---------------------------------------------------------------------------

/// What a simulated writer does on each `write` call.
#[derive(Clone, Debug, Serialize, Deserialize, PartialEq, Eq, Hash, Default)]
pub struct WriterPlan {
  /// hard failure once this many bytes have been accepted (`None`: never)
  pub fail_at: Option<u64>,
  /// kind of the hard failure
  pub fail_kind: FailKind,
  /// accept at most this many bytes per call (0 = no limit)
  pub max_chunk: u32,
  /// return `Interrupted` before every n-th successful write (0 = never)
  pub eintr_every: u32,
  /// length of each EINTR burst
  pub eintr_burst: u32,
  /// return `Ok(0)` once this many bytes were accepted
  pub zero_at: Option<u64>,
  /// the hard failure is transient: exactly one call fails, later calls are
  /// accepted again (a quota that frees up, a socket that recovers). Whatever
  /// a caller writes after the error then lands in the sink and is visible.
  #[serde(default)]
  pub transient: bool,
  /// the writer implements `write_vectored` itself, like a pipe or a socket:
  /// the byte count it accepts runs across the offered buffers (with the
  /// default implementation only the first non-empty buffer is ever looked at)
  #[serde(default)]
  pub vectored: bool,
  /// the sink re-enters the library on the same thread: its first write call
  /// renders a small banner (a ReplaceSource, a ConcatSource and a
  /// CachedSource, each through `to_writer`) before accepting anything
  #[serde(default)]
  pub reenter: bool,
}

#[derive(Clone, Debug, Serialize, Deserialize, PartialEq, Eq, Hash, Default)]
pub enum FailKind {
  #[default]
  StorageFull,
  Other,
  BrokenPipe,
  PermissionDenied,
  /// a momentarily busy non-blocking sink (with `transient`: it recovers)
  WouldBlock,
  TimedOut,
}

#[derive(Clone, Debug, Serialize, Deserialize, PartialEq, Eq, Hash)]
pub enum OpKind {
  Source,
  Buffer,
  Size,
  Rope,
  ToWriter { plan: WriterPlan },
  Map { columns: bool },
  /// Stream chunks, keeping every borrowed chunk/name/content until the call
  /// returns. `abort_at = Some(j)`: the chunk callback unwinds at chunk j.
  Stream { columns: bool, abort_at: Option<u32> },
  Hash,
  /// `Source::update_hash` with the same fixed hasher
  UpdateHash,
  /// `objects[obj] == objects[other]` through `dyn Source`
  Eq { other: usize },
  /// deep clone (`dyn_clone::clone_box`), then run `then` on the clone
  CloneThen {
    then: Box<OpKind>,
    /// `Some(warm)`: the clone is *orphaned* first — run `warm` on the first
    /// clone (its answer is not kept), clone that clone, drop the first clone,
    /// let the allocator reuse what it freed, and run `then` on the second
    /// clone. A clone must own (or co-own) everything it reads.
    #[serde(default)]
    orphan: Option<Box<OpKind>>,
  },
  /// deep clone, then `original == clone`
  EqClone,
  /// use `objects[obj]` as a `HashMap` key, then look `objects[probe]` up
  Lookup { probe: usize },
  /// if the object is a `ReplaceSource`: clone it, apply one more mutating
  /// call to the *clone*, run `then` on the clone. The original is untouched
  /// and must keep answering as before. (No-op on other source types.)
  CloneEditObserve { call: ReplCall, then: Box<OpKind> },
  /// render the value with `{:?}` into a formatter sink that fails once
  /// `limit` bytes were accepted (`None`: never). A disturber: its answer is
  /// not judged (Debug output may legitimately show cache state), only what
  /// it leaves behind.
  DebugFmt { limit: Option<u32> },
  /// Collaborator failure: run `then` with a one-shot fault armed — the
  /// `at`-th fault point reached on this thread during the call (a method of a
  /// user-defined child source: source / rope / buffer / size / map / to_writer
  /// / stream entry, chunk, exit / hash; or one of the consumer's own
  /// `on_chunk` / `on_source` / `on_name` callbacks) unwinds. If the call does
  /// not reach that many points it completes and is judged like `then`. A
  /// fired fault is a fault, not an answer: only what it leaves behind counts.
  ChildFault { at: u32, then: Box<OpKind> },
}

impl OpKind {
  /// The op without an armed collaborator fault.
  pub fn without_fault(&self) -> &OpKind {
    match self {
      OpKind::ChildFault { then, .. } => then.without_fault(),
      k => k,
    }
  }
}

#[derive(Clone, Debug, Serialize, Deserialize, PartialEq, Eq, Hash)]
pub struct Op {
  pub obj: usize,
  pub kind: OpKind,
}

impl OpKind {
  pub fn label(&self) -> String {
    match self {
      OpKind::Source => "source".into(),
      OpKind::Buffer => "buffer".into(),
      OpKind::Size => "size".into(),
      OpKind::Rope => "rope".into(),
      OpKind::ToWriter { .. } => "to_writer".into(),
      OpKind::Map { columns } => format!("map({})", columns),
      OpKind::Stream { columns, abort_at } => match abort_at {
        Some(j) => format!("stream({},abort@{})", columns, j),
        None => format!("stream({})", columns),
      },
      OpKind::Hash => "hash".into(),
      OpKind::UpdateHash => "update_hash".into(),
      OpKind::Eq { .. } => "eq".into(),
      OpKind::CloneThen { then, orphan: None } => format!("clone>{}", then.label()),
      OpKind::CloneThen { then, orphan: Some(w) } => format!("clone>{}>clone>drop>{}", w.label(), then.label()),
      OpKind::EqClone => "eq_clone".into(),
      OpKind::Lookup { .. } => "lookup".into(),
      OpKind::CloneEditObserve { then, .. } => format!("clone>edit>{}", then.label()),
      OpKind::DebugFmt { limit } => format!("debug_fmt({:?})", limit),
      OpKind::ChildFault { at, then } => format!("child_fault@{}>{}", at, then.label()),
    }
  }
  pub fn class(&self) -> &'static str {
    match self {
      OpKind::Source => "source",
      OpKind::Buffer => "buffer",
      OpKind::Size => "size",
      OpKind::Rope => "rope",
      OpKind::ToWriter { .. } => "to_writer",
      OpKind::Map { .. } => "map",
      OpKind::Stream { .. } => "stream",
      OpKind::Hash | OpKind::UpdateHash => "hash",
      OpKind::Eq { .. } => "eq",
      OpKind::CloneThen { .. } => "clone",
      OpKind::EqClone => "eq",
      OpKind::Lookup { .. } => "lookup",
      OpKind::CloneEditObserve { .. } => "clone_edit",
      OpKind::DebugFmt { .. } => "debug",
      OpKind::ChildFault { then, .. } => then.class(),
    }
  }
}
