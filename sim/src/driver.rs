//! Parallel run driver, aggregation, replay files, known findings, evidence.

use std::{
  collections::{BTreeMap, BTreeSet, HashSet},
  time::Instant,
};

use serde::{Deserialize, Serialize};
use serde_json::{json, Value};

use crate::conc::{Counters, Violation};

/// Result of one simulated run.
pub struct RunReport {
  pub index: u64,
  pub violations: Vec<Violation>,
  pub counters: Counters,
  pub log_hash: u64,
  pub case_hash: u64,
  pub nontrivial: bool,
  pub skipped: bool,
  /// explicit case (scenario, knobs, schedule, faults) — always filled; the
  /// driver keeps it only for violations and samples
  pub case: Value,
  /// compact outcome fingerprint for the determinism table
  pub outcome_hash: u64,
  /// ordered pairs of shared-state access sites between which the scheduler
  /// switched threads in this run (coverage measure)
  pub site_pairs: BTreeSet<(String, String)>,
}

pub trait Property: Sync {
  fn id(&self) -> &'static str;
  fn level(&self) -> &'static str;
  /// Generate run `index` under `seed` and check it.
  fn run_one(&self, seed: u64, index: u64) -> RunReport;
  /// The explicit case of run `index` (without executing it).
  fn case_of(&self, seed: u64, index: u64) -> Value;
  /// Re-execute an explicit case.
  fn replay(&self, case: &Value, keep_trace: bool) -> (RunReport, Vec<String>);
  /// Minimise a failing case; returns the smaller case (still failing with a
  /// violation of kind `kind`) and a description of what was removed.
  fn shrink(&self, case: &Value, kind: &str) -> (Value, Value);
  fn rule(&self) -> String;
  fn assumptions(&self) -> Vec<String>;
  fn real_vs_stub(&self) -> Value;
}

#[derive(Clone, Debug, Serialize, Deserialize)]
pub struct KnownEntry {
  pub status: String, // "known" | "fixed"
  pub property: String,
  pub what: String,
  #[serde(default)]
  pub kind: Option<String>,
  #[serde(default)]
  pub detail_contains: Option<String>,
  #[serde(default)]
  pub case_contains: Option<String>,
  #[serde(default)]
  pub commit: Option<String>,
  #[serde(default)]
  pub example: Option<Value>,
}

pub fn load_known(path: &str) -> Vec<KnownEntry> {
  match std::fs::read_to_string(path) {
    Ok(s) => serde_json::from_str::<Vec<KnownEntry>>(&s).unwrap_or_else(|e| {
      eprintln!("HARNESS-ERROR: {} does not parse: {}", path, e);
      std::process::exit(2);
    }),
    Err(_) => vec![],
  }
}

fn matches_known<'a>(
  known: &'a [KnownEntry],
  prop: &str,
  v: &Violation,
  case: &Value,
) -> Option<&'a KnownEntry> {
  known.iter().find(|k| {
    k.status == "known"
      && k.property == prop
      && k.kind.as_ref().map_or(true, |x| *x == v.kind)
      && k.detail_contains.as_ref().map_or(true, |x| v.detail.contains(x.as_str()))
      && k
        .case_contains
        .as_ref()
        .map_or(true, |x| case.to_string().contains(x.as_str()))
  })
}

pub struct RunCfg {
  pub seed: u64,
  pub runs: u64,
  pub workers: usize,
  pub tier: String,
  pub table: Option<String>,
  pub verif_dir: String,
  pub max_reported: usize,
  pub write_evidence: bool,
}

#[derive(Serialize, Deserialize, Default)]
struct Agg {
  counters: BTreeMap<String, u64>,
  log_hashes: HashSet<u64>,
  case_hashes: HashSet<u64>,
  nontrivial_hashes: HashSet<u64>,
  skipped: u64,
  failing: Vec<(u64, Vec<Violation>, Value, u64)>,
  samples: Vec<(u64, Value)>,
  table: Vec<(u64, u64, u64)>,
  unsafe_hits: BTreeMap<String, u64>,
  /// known finding -> number of runs of this worker that hit it
  known_hits: BTreeMap<String, u64>,
  site_pairs: BTreeSet<(String, String)>,
}

/// One worker process: runs indices `id, id + workers, ...` single-threaded
/// and writes its partial aggregate to `out`. `marker` always names the run
/// that is executing, so a crash can be attributed.
pub fn run_worker(
  p: &dyn Property,
  seed: u64,
  runs: u64,
  workers: u64,
  id: u64,
  want_table: bool,
  out: &str,
  verif_dir: &str,
) {
  let known = load_known(&format!("{}/known_findings.json", verif_dir));
  let mut a = Agg::default();
  let marker = format!("{}.current", out);
  let mut i = id;
  while i < runs {
    if i % 64 == id % 64 || true {
      let _ = std::fs::write(&marker, i.to_string());
    }
    let r = p.run_one(seed, i);
    for (k, v) in &r.counters.0 {
      *a.counters.entry(k.clone()).or_insert(0) += v;
    }
    a.log_hashes.insert(r.log_hash);
    a.case_hashes.insert(r.case_hash);
    a.site_pairs.extend(r.site_pairs.iter().cloned());
    if r.nontrivial {
      a.nontrivial_hashes.insert(r.case_hash ^ r.log_hash.rotate_left(17));
    }
    if r.skipped {
      a.skipped += 1;
    }
    if want_table {
      a.table.push((i, r.log_hash, r.outcome_hash));
    }
    for v in &r.violations {
      *a.counters.entry(format!("violation:{}", v.kind)).or_insert(0) += 1;
    }
    // listed findings are only counted; everything else is kept for reporting
    let mut unlisted = vec![];
    let mut hit: BTreeSet<String> = BTreeSet::new();
    for v in r.violations {
      match matches_known(&known, p.id(), &v, &r.case) {
        Some(k) => {
          hit.insert(k.what.clone());
        }
        None => {
          // very long details (answers over megabyte texts) are cut for reports
          let mut v = v;
          if v.detail.len() > 4000 {
            let mut cut = 4000;
            while !v.detail.is_char_boundary(cut) {
              cut -= 1;
            }
            v.detail = format!("{}... ({} bytes in all)", &v.detail[..cut], v.detail.len());
          }
          unlisted.push(v)
        }
      }
    }
    for what in hit {
      *a.known_hits.entry(what).or_insert(0) += 1;
    }
    if !unlisted.is_empty() {
      if a.failing.len() < 64 {
        a.failing.push((i, unlisted, r.case, r.log_hash));
      } else {
        // Enough evidence: stop this worker. (Each worker visits its indices
        // in increasing order, so the lowest failing index overall is among
        // the kept ones whatever the worker count.) This also bounds the cost
        // of a change that makes every run fail slowly.
        *a.counters.entry("worker_stopped_after_64_violating_runs".into()).or_insert(0) += 1;
        break;
      }
    } else if i < 3 {
      a.samples.push((i, r.case));
    }
    i += workers;
  }
  crate::sched::flush_unsafe_hits();
  a.unsafe_hits = crate::sched::global_unsafe_hits();
  std::fs::write(out, serde_json::to_vec(&a).expect("serialise partial")).expect("write partial");
  let _ = std::fs::remove_file(&marker);
}

pub fn run_property(p: &dyn Property, cfg: &RunCfg) -> i32 {
  let t0 = Instant::now();
  println!("vsim property={} tier={} VERIF_SEED={} runs={} workers={}", p.id(), cfg.tier, cfg.seed, cfg.runs, cfg.workers);
  let want_table = cfg.table.is_some();
  let exe = std::env::current_exe().expect("current_exe");
  let tmp = format!("{}/target/tmp/{}-{}-{}", cfg.verif_dir, p.id(), cfg.seed, std::process::id());
  let _ = std::fs::create_dir_all(&tmp);
  let mut children = vec![];
  for k in 0..cfg.workers {
    let out = format!("{}/part-{}.json", tmp, k);
    let mut cmd = std::process::Command::new(&exe);
    cmd
      .arg("worker")
      .arg(p.id())
      .arg("--seed")
      .arg(cfg.seed.to_string())
      .arg("--runs")
      .arg(cfg.runs.to_string())
      .arg("--workers")
      .arg(cfg.workers.to_string())
      .arg("--worker-id")
      .arg(k.to_string())
      .arg("--out")
      .arg(&out)
      .arg("--verif-dir")
      .arg(&cfg.verif_dir);
    if want_table {
      cmd.arg("--want-table");
    }
    let child = cmd.spawn().expect("spawn worker process");
    children.push((k, out, child));
  }
  let mut aggs: Vec<Agg> = vec![];
  let mut crashes: Vec<(u64, String)> = vec![];
  // Wait for all workers at once. Watchdog: a worker whose current run does
  // not change for a long time is stuck in a *real* wait (a lock the seam does
  // not wrap, held by a parked simulated thread): that run is reported as a hang.
  struct Live {
    k: usize,
    out: String,
    child: std::process::Child,
    last_seen: String,
    last_change: Instant,
  }
  let mut live: Vec<Live> = children
    .into_iter()
    .map(|(k, out, child)| Live {
      k,
      out,
      child,
      last_seen: String::new(),
      last_change: Instant::now(),
    })
    .collect();
  while !live.is_empty() {
    std::thread::sleep(std::time::Duration::from_millis(50));
    let mut idx = 0;
    while idx < live.len() {
      let l = &mut live[idx];
      let marker = format!("{}.current", l.out);
      let mut finished: Option<(std::process::ExitStatus, bool)> = None;
      match l.child.try_wait().expect("wait for worker") {
        Some(st) => finished = Some((st, false)),
        None => {
          let now = std::fs::read_to_string(&marker).unwrap_or_default();
          if now != l.last_seen {
            l.last_seen = now;
            l.last_change = Instant::now();
          } else if l.last_change.elapsed().as_secs() > 120 {
            let _ = l.child.kill();
            let st = l.child.wait().expect("wait for killed worker");
            finished = Some((st, true));
          }
        }
      }
      if let Some((status, hung)) = finished {
        let l = live.remove(idx);
        if hung {
          match l.last_seen.trim().parse::<u64>() {
            Ok(i) => crashes.push((
              i,
              format!("worker {} made no progress for 120 s while executing run {} (a real, unsimulated wait: hang)", l.k, i),
            )),
            Err(_) => {
              eprintln!("HARNESS-ERROR: worker {} hung and left no marker", l.k);
              std::process::exit(2);
            }
          }
          continue;
        }
        // (a library that reads freed memory can hand the harness strings that
        // are not UTF-8; the worker's report is then read lossily rather than
        // thrown away)
        match std::fs::read(&l.out).ok().and_then(|b| {
          serde_json::from_slice::<Agg>(&b)
            .ok()
            .or_else(|| serde_json::from_str::<Agg>(&String::from_utf8_lossy(&b)).ok())
        }) {
          Some(a) if status.success() => aggs.push(a),
          _ => {
            let at = std::fs::read_to_string(&marker).unwrap_or_default();
            match at.trim().parse::<u64>() {
              Ok(i) => crashes.push((i, format!("worker {} died ({}) while executing run {}", l.k, status, i))),
              Err(_) => {
                eprintln!("HARNESS-ERROR: worker {} failed ({}) and left no marker", l.k, status);
                std::process::exit(2);
              }
            }
          }
        }
      } else {
        idx += 1;
      }
    }
  }
  let _ = std::fs::remove_dir_all(&tmp);

  // merge (commutative => independent of worker count)
  let mut counters: BTreeMap<String, u64> = BTreeMap::new();
  let mut log_hashes = HashSet::new();
  let mut case_hashes = HashSet::new();
  let mut nontrivial = HashSet::new();
  let mut skipped = 0;
  let mut failing = vec![];
  let mut samples = vec![];
  let mut table = vec![];
  let mut unsafe_hits: BTreeMap<String, u64> = BTreeMap::new();
  let mut known_hits: BTreeMap<String, (u64, String)> = BTreeMap::new();
  let mut site_pairs: BTreeSet<(String, String)> = BTreeSet::new();
  for a in aggs {
    site_pairs.extend(a.site_pairs.iter().cloned());
    for (k, v) in a.known_hits {
      known_hits.entry(k).or_insert((0, String::new())).0 += v;
    }
    for (k, v) in a.unsafe_hits {
      *unsafe_hits.entry(k).or_insert(0) += v;
    }
    for (k, v) in a.counters {
      *counters.entry(k).or_insert(0) += v;
    }
    log_hashes.extend(a.log_hashes);
    case_hashes.extend(a.case_hashes);
    nontrivial.extend(a.nontrivial_hashes);
    skipped += a.skipped;
    failing.extend(a.failing);
    samples.extend(a.samples);
    table.extend(a.table);
  }
  let any_crash = !crashes.is_empty();
  for (i, why) in crashes {
    let case = p.case_of(cfg.seed, i);
    failing.push((
      i,
      vec![Violation {
        kind: "crash".into(),
        op_class: "process".into(),
        detail: why,
      }],
      case,
      0,
    ));
  }
  failing.sort_by_key(|f| f.0);
  samples.sort_by_key(|s| s.0);
  if let Some(path) = &cfg.table {
    table.sort_by_key(|t| t.0);
    let mut out = String::new();
    for (i, l, o) in &table {
      out.push_str(&format!("{} {:016x} {:016x}\n", i, l, o));
    }
    std::fs::write(path, out).expect("write table");
  }

  // classify against known findings; shrink and report the rest
  let known = load_known(&format!("{}/known_findings.json", cfg.verif_dir));
  let mut new_violations: Vec<(u64, Violation, Value, u64)> = vec![];
  for (i, vs, case, lh) in &failing {
    for v in vs {
      match matches_known(&known, p.id(), v, case) {
        Some(k) => {
          let e = known_hits.entry(k.what.clone()).or_insert((0, v.detail.clone()));
          e.0 += 1;
        }
        None => new_violations.push((*i, v.clone(), case.clone(), *lh)),
      }
    }
  }
  for (what, (n, _)) in &known_hits {
    println!("KNOWN-FINDING: property={} {} (seen in {} run(s) of this batch)", p.id(), what, n);
  }

  let mut reported_kinds: BTreeSet<String> = BTreeSet::new();
  let mut replay_paths = vec![];
  let total_new = new_violations.len();
  for (i, v, case, lh) in new_violations.iter() {
    if reported_kinds.len() >= cfg.max_reported {
      break;
    }
    if !reported_kinds.insert(format!("{}/{}", v.kind, v.op_class)) {
      continue;
    }
    // A worker that died means the tree under test may corrupt memory: nothing
    // is re-executed inside the driver process then (cases are reported as
    // found, unshrunk). A panic of the shrinker itself falls back the same way.
    let in_process_ok = !any_crash;
    let (small, shrunk_from) = if v.kind == "crash" || !in_process_ok {
      (case.clone(), json!(null))
    } else {
      match std::panic::catch_unwind(std::panic::AssertUnwindSafe(|| p.shrink(case, &v.kind))) {
        Ok(x) => x,
        Err(_) => (case.clone(), json!(null)),
      }
    };
    // re-execute the minimised case to get its own violation text and log hash
    let (rep, _) = if v.kind == "crash" || !in_process_ok {
      // never re-execute a crashing case in the driver process
      (
        RunReport {
          index: *i,
          violations: vec![],
          counters: Counters::default(),
          log_hash: 0,
          case_hash: 0,
          nontrivial: false,
          skipped: false,
          case: case.clone(),
          outcome_hash: 0,
          site_pairs: BTreeSet::new(),
        },
        vec![],
      )
    } else {
      match std::panic::catch_unwind(std::panic::AssertUnwindSafe(|| p.replay(&small, false))) {
        Ok(x) => x,
        Err(_) => (
          RunReport {
            index: *i,
            violations: vec![],
            counters: Counters::default(),
            log_hash: 0,
            case_hash: 0,
            nontrivial: false,
            skipped: false,
            case: case.clone(),
            outcome_hash: 0,
            site_pairs: BTreeSet::new(),
          },
          vec![],
        ),
      }
    };
    let found = rep
      .violations
      .iter()
      .find(|x| x.kind == v.kind && x.op_class == v.op_class)
      .or_else(|| rep.violations.iter().find(|x| x.kind == v.kind));
    let (final_case, mut final_v, final_lh) = match found {
      Some(fv) => (rep.case.clone(), fv.clone(), rep.log_hash),
      None => (case.clone(), v.clone(), *lh),
    };
    if final_v.detail.len() > 4000 {
      let mut cut = 4000;
      while !final_v.detail.is_char_boundary(cut) {
        cut -= 1;
      }
      final_v.detail = format!("{}... ({} bytes in all)", &final_v.detail[..cut], final_v.detail.len());
    }
    let dir = format!("{}/replays", cfg.verif_dir);
    let _ = std::fs::create_dir_all(&dir);
    let path = format!("{}/{}-{}-{}-{}.json", dir, p.id(), cfg.seed, i, v.kind);
    let file = json!({
      "version": 1,
      "property": p.id(),
      "seed": cfg.seed,
      "run": i,
      "violation": final_v,
      "log_hash": format!("{:016x}", final_lh),
      "case": final_case,
      "shrunk_from": shrunk_from,
    });
    std::fs::write(&path, serde_json::to_string_pretty(&file).unwrap()).expect("write replay");
    println!("VIOLATION property={} replay={}", p.id(), path);
    println!("  kind={} op={} run={} detail={}", final_v.kind, final_v.op_class, i, final_v.detail);
    replay_paths.push(path);
  }

  let wall = t0.elapsed().as_secs_f64();
  let runs_per_hour = if wall > 0.0 { cfg.runs as f64 / wall * 3600.0 } else { 0.0 };
  println!(
    "summary property={} runs={} skipped={} distinct_interleavings={} distinct_cases={} violating_runs={} unlisted_violations={} wall={:.1}s",
    p.id(),
    cfg.runs,
    skipped,
    log_hashes.len(),
    case_hashes.len(),
    failing.len(),
    total_new,
    wall
  );

  for (k, v) in counters.iter().filter(|(k, _)| k.starts_with("violation:")) {
    println!("  {} = {}", k, v);
  }
  if cfg.write_evidence {
    let faults: BTreeMap<&String, &u64> = counters.iter().filter(|(k, _)| k.starts_with("fault:")).collect();
    let probes: BTreeMap<&String, &u64> = counters
      .iter()
      .filter(|(k, _)| k.starts_with("probe:") || k.starts_with("blocked:") || k.starts_with("event:"))
      .collect();
    let other: BTreeMap<&String, &u64> = counters
      .iter()
      .filter(|(k, _)| !(k.starts_with("fault:") || k.starts_with("probe:") || k.starts_with("blocked:") || k.starts_with("event:")))
      .collect();
    let ev = json!({
      "property_id": p.id(),
      "tier": cfg.tier,
      "seed": cfg.seed,
      "level": p.level(),
      "wall_s": wall,
      "violations": total_new,
      "coverage": {
        "evaluations": cfg.runs,
        "distinct_nontrivial": nontrivial.len(),
        "rule": p.rule(),
        "samples": samples.iter().take(3).map(|s| s.1.clone()).collect::<Vec<_>>(),
        "simulated_runs": cfg.runs,
        "runs_per_hour": runs_per_hour as u64,
        "simulated_time": {
          "unit": "scheduler decisions (the library reads no clock)",
          "decisions": counters.get("decisions").copied().unwrap_or(0),
          "thread_switches": counters.get("switches").copied().unwrap_or(0),
        },
        "distinct_interleavings": log_hashes.len(),
        "distinct_cross_thread_site_pairs": site_pairs.len(),
        "cross_thread_site_pairs_sample": site_pairs.iter().take(40).map(|(a, b)| format!("{} -> {}", a, b)).collect::<Vec<_>>(),
        "distinct_cases": case_hashes.len(),
        "runs_skipped_out_of_domain": skipped,
        "faults_fired": faults,
        "probes": probes,
        "counters": other,
        "unsafe_site_hits": unsafe_hits,
        "known_findings_hit": known_hits.iter().map(|(k, v)| json!({"what": k, "runs": v.0})).collect::<Vec<_>>(),
        "replay_files": replay_paths,
        "real_vs_stub": p.real_vs_stub(),
      },
      "assumptions": p.assumptions(),
    });
    let dir = format!("{}/evidence", cfg.verif_dir);
    let _ = std::fs::create_dir_all(&dir);
    std::fs::write(format!("{}/{}.json", dir, p.id()), serde_json::to_string_pretty(&ev).unwrap())
      .expect("write evidence");
  }

  if total_new > 0 {
    1
  } else {
    0
  }
}

pub fn replay_file(p: &dyn Property, path: &str, trace: bool) -> i32 {
  let text = std::fs::read_to_string(path).unwrap_or_else(|e| {
    eprintln!("HARNESS-ERROR: cannot read {}: {}", path, e);
    std::process::exit(2);
  });
  let file: Value = serde_json::from_str(&text).unwrap_or_else(|e| {
    eprintln!("HARNESS-ERROR: {} does not parse: {}", path, e);
    std::process::exit(2);
  });
  let expected_kind = file["violation"]["kind"].as_str().unwrap_or("").to_string();
  let expected_hash = file["log_hash"].as_str().unwrap_or("").to_string();
  if expected_kind == "crash" && std::env::var_os("VSIM_REPLAY_CHILD").is_none() {
    // The recorded run killed (or hung) its worker process. Re-execute it in
    // a child, so that the same death / hang becomes a verdict here instead
    // of taking the replay command down with it.
    return replay_crash_in_child(p, path, trace);
  }
  let (rep, tr) = p.replay(&file["case"], trace);
  if trace {
    for l in &tr {
      println!("  {}", l);
    }
  }
  let got_hash = format!("{:016x}", rep.log_hash);
  println!(
    "replay property={} expected_kind={} log_hash={} expected_log_hash={} log_hash_match={}",
    p.id(),
    expected_kind,
    got_hash,
    expected_hash,
    got_hash == expected_hash
  );
  for v in &rep.violations {
    println!("  violation kind={} op={} detail={}", v.kind, v.op_class, v.detail);
  }
  if rep.violations.iter().any(|v| v.kind == expected_kind) {
    println!("VIOLATION property={} replay={}", p.id(), path);
    1
  } else if !rep.violations.is_empty() {
    println!("VIOLATION property={} replay={} (different kind than recorded)", p.id(), path);
    1
  } else {
    println!("replay is clean on this tree");
    0
  }
}

/// Replay of a case whose recorded violation is `crash`: the case runs in a
/// child process under the same watchdog rule as a batch (no exit within
/// 150 s = hang).
fn replay_crash_in_child(p: &dyn Property, path: &str, trace: bool) -> i32 {
  use std::process::{Command, Stdio};
  let exe = std::env::current_exe().expect("current_exe");
  let mut cmd = Command::new(exe);
  cmd.arg("replay").arg(p.id()).arg(path);
  if trace {
    cmd.arg("--trace");
  }
  cmd.env("VSIM_REPLAY_CHILD", "1").stdin(Stdio::null());
  let mut child = match cmd.spawn() {
    Ok(c) => c,
    Err(e) => {
      eprintln!("HARNESS-ERROR: cannot start the replay child: {}", e);
      return 2;
    }
  };
  let start = Instant::now();
  let status = loop {
    match child.try_wait() {
      Ok(Some(st)) => break Some(st),
      Ok(None) => {
        if start.elapsed().as_secs() > 150 {
          let _ = child.kill();
          let _ = child.wait();
          break None;
        }
        std::thread::sleep(std::time::Duration::from_millis(50));
      }
      Err(e) => {
        eprintln!("HARNESS-ERROR: waiting for the replay child: {}", e);
        return 2;
      }
    }
  };
  match status {
    None => {
      println!("  violation kind=crash op=process detail=the replayed run made no progress for 150 s (a real, unsimulated wait: hang)");
      println!("VIOLATION property={} replay={}", p.id(), path);
      1
    }
    Some(st) => match st.code() {
      // the child printed its own verdict (clean, or a violation of another kind)
      Some(0) => 0,
      Some(1) => 1,
      Some(2) => 2,
      _ => {
        println!("  violation kind=crash op=process detail=the replayed run killed its process ({})", st);
        println!("VIOLATION property={} replay={}", p.id(), path);
        1
      }
    },
  }
}
