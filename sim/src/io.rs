//! Simulated writers and readers: the "disk" the library writes to and reads
//! from. Driven by an explicit plan, so one plan is one exact I/O history.

use std::io::{self, ErrorKind, Read, Write};

use serde::{Deserialize, Serialize};

use crate::spec::{FailKind, WriterPlan};

pub const TAG: &str = "vsim-injected";

fn kind_of(k: &FailKind) -> ErrorKind {
  match k {
    FailKind::StorageFull => ErrorKind::Other, // 1.83: StorageFull is unstable; tag distinguishes
    FailKind::Other => ErrorKind::Other,
    FailKind::BrokenPipe => ErrorKind::BrokenPipe,
    FailKind::PermissionDenied => ErrorKind::PermissionDenied,
    FailKind::WouldBlock => ErrorKind::WouldBlock,
    FailKind::TimedOut => ErrorKind::TimedOut,
  }
}

#[derive(Clone, Debug, Default, Serialize, Deserialize, PartialEq, Eq)]
pub struct IoStats {
  pub calls: u64,
  pub short_writes: u64,
  pub eintr: u64,
  pub hard_errors: u64,
  pub zero_returns: u64,
  pub calls_after_error: u64,
  #[serde(default)]
  pub bytes_after_error: u64,
  pub flushes: u64,
  #[serde(default)]
  pub vectored_calls: u64,
  #[serde(default)]
  pub reentered: u64,
  #[serde(default)]
  pub reenter_mismatch: u64,
}

pub struct SimWriter {
  pub plan: WriterPlan,
  pub accepted: Vec<u8>,
  pub stats: IoStats,
  pub failed: bool,
  ok_calls: u32,
  burst_left: u32,
  serial: u64,
  reentered: bool,
}

impl SimWriter {
  pub fn new(plan: WriterPlan, serial: u64) -> Self {
    SimWriter {
      plan,
      accepted: vec![],
      stats: IoStats::default(),
      failed: false,
      ok_calls: 0,
      burst_left: 0,
      serial,
      reentered: false,
    }
  }

  /// A sink that renders something of its own with the library before it
  /// accepts the first byte (a banner, a log line): the library is re-entered
  /// on the same thread while the outer `to_writer` is inside `write`.
  fn reenter(&mut self) {
    use rspack_sources::{CachedSource, ConcatSource, RawStringSource, ReplaceSource, Source, SourceExt};
    self.reentered = true;
    self.stats.reentered += 1;
    let mut r = ReplaceSource::new(RawStringSource::from("banner v0\n".to_string()));
    r.replace(8, 9, "1", None);
    r.insert(0, "// ", None);
    let c = ConcatSource::new([r.clone().boxed(), RawStringSource::from("x".to_string()).boxed()]);
    let k = CachedSource::new(r.clone());
    let mut out: Vec<u8> = vec![];
    let ok = r.to_writer(&mut out).is_ok() && c.to_writer(&mut out).is_ok() && k.to_writer(&mut out).is_ok();
    if !ok || out != b"// banner v1\n// banner v1\nx// banner v1\n" {
      self.stats.reenter_mismatch += 1;
    }
  }

  pub fn tag(&self) -> String {
    format!("{}#{}", TAG, self.serial)
  }
}

impl Write for SimWriter {
  fn write(&mut self, buf: &[u8]) -> io::Result<usize> {
    self.stats.calls += 1;
    if self.failed {
      // a caller that keeps writing after a hard error is visible here
      self.stats.calls_after_error += 1;
      if !self.plan.transient {
        return Err(io::Error::new(kind_of(&self.plan.fail_kind), self.tag()));
      }
      // transient failure: the sink accepts again
      self.accepted.extend_from_slice(buf);
      self.stats.bytes_after_error += buf.len() as u64;
      return Ok(buf.len());
    }
    if buf.is_empty() {
      return Ok(0);
    }
    if self.plan.reenter && !self.reentered {
      self.reenter();
    }
    // EINTR bursts
    if self.burst_left > 0 {
      self.burst_left -= 1;
      self.stats.eintr += 1;
      return Err(io::Error::new(ErrorKind::Interrupted, "vsim-eintr"));
    }
    let have = self.accepted.len() as u64;
    if let Some(z) = self.plan.zero_at {
      if have >= z {
        self.stats.zero_returns += 1;
        return Ok(0);
      }
    }
    let mut n = buf.len() as u64;
    if self.plan.max_chunk > 0 {
      n = n.min(self.plan.max_chunk as u64);
    }
    if let Some(k) = self.plan.fail_at {
      if have >= k {
        self.failed = true;
        self.stats.hard_errors += 1;
        return Err(io::Error::new(kind_of(&self.plan.fail_kind), self.tag()));
      }
      n = n.min(k - have);
    }
    if let Some(z) = self.plan.zero_at {
      if z > have {
        n = n.min(z - have);
      }
    }
    if (n as usize) < buf.len() {
      self.stats.short_writes += 1;
    }
    self.accepted.extend_from_slice(&buf[..n as usize]);
    // after every n-th successful write the next call(s) are interrupted;
    // progress is guaranteed because a burst is finite
    if self.plan.eintr_every > 0 {
      self.ok_calls += 1;
      if self.ok_calls % self.plan.eintr_every == 0 {
        self.burst_left = self.plan.eintr_burst.max(1);
      }
    }
    Ok(n as usize)
  }

  fn write_vectored(&mut self, bufs: &[io::IoSlice<'_>]) -> io::Result<usize> {
    if !self.plan.vectored {
      // std's default: the first non-empty buffer
      let buf = bufs.iter().find(|b| !b.is_empty()).map_or(&[][..], |b| &**b);
      return self.write(buf);
    }
    // a real scatter/gather sink: one byte count across all buffers, so a
    // short write can end anywhere, also exactly on or just behind a boundary
    let joined: Vec<u8> = bufs.iter().flat_map(|b| b.iter().copied()).collect();
    self.stats.vectored_calls += 1;
    self.write(&joined)
  }

  fn flush(&mut self) -> io::Result<()> {
    self.stats.flushes += 1;
    Ok(())
  }
}

/// What a simulated reader does.
#[derive(Clone, Debug, Serialize, Deserialize, PartialEq, Eq, Hash, Default)]
pub struct ReaderPlan {
  /// at most this many bytes per call (0 = no limit)
  pub max_chunk: u32,
  /// `Interrupted` before every n-th read (0 = never)
  pub eintr_every: u32,
  /// hard error once this many bytes were delivered
  pub fail_at: Option<u64>,
  /// only the first k bytes of the file survive (crash-truncation)
  pub truncate_at: Option<u64>,
}

pub struct SimReader<'a> {
  data: &'a [u8],
  pos: usize,
  plan: ReaderPlan,
  calls: u32,
  pending_eintr: bool,
  pub stats: IoStats,
}

impl<'a> SimReader<'a> {
  pub fn new(data: &'a [u8], plan: ReaderPlan) -> Self {
    let data = match plan.truncate_at {
      Some(k) => &data[..(k as usize).min(data.len())],
      None => data,
    };
    SimReader {
      data,
      pos: 0,
      plan,
      calls: 0,
      pending_eintr: false,
      stats: IoStats::default(),
    }
  }
}

impl Read for SimReader<'_> {
  fn read(&mut self, buf: &mut [u8]) -> io::Result<usize> {
    self.stats.calls += 1;
    if buf.is_empty() {
      return Ok(0);
    }
    if self.pending_eintr {
      self.pending_eintr = false;
      self.stats.eintr += 1;
      return Err(io::Error::new(ErrorKind::Interrupted, "vsim-eintr"));
    }
    self.calls += 1;
    if self.plan.eintr_every > 0 && self.calls % self.plan.eintr_every == 0 {
      self.pending_eintr = true; // the *next* call is interrupted
    }
    if let Some(k) = self.plan.fail_at {
      if self.pos as u64 >= k {
        self.stats.hard_errors += 1;
        return Err(io::Error::new(ErrorKind::Other, TAG));
      }
    }
    let mut n = buf.len().min(self.data.len() - self.pos);
    if self.plan.max_chunk > 0 {
      n = n.min(self.plan.max_chunk as usize);
    }
    if let Some(k) = self.plan.fail_at {
      n = n.min(k as usize - self.pos);
    }
    if n < buf.len() && self.pos + n < self.data.len() {
      self.stats.short_writes += 1; // short read
    }
    buf[..n].copy_from_slice(&self.data[self.pos..self.pos + n]);
    self.pos += n;
    Ok(n)
  }
}
