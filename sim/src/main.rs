//! vsim — deterministic simulation with fault injection for rspack-sources.
//!
//! usage:
//!   vsim run <PROP> [--tier quick|thorough] [--seed N] [--runs N] [--workers N] [--table FILE] [--no-evidence]
//!   vsim replay <PROP> <FILE> [--trace]
//!   vsim miri-one <seed> <index>        (one C19 scenario, no baselines; for `cargo miri run`)

mod conc;
mod driver;
mod exec;
mod gen;
mod io;
mod model;
mod props_c05;
mod props_c07;
mod props_c15;
mod props_conc;
mod rng;
mod rope_prog;
mod runner;
mod selftest;
mod sched;
mod spec;
mod strict;

use driver::{Property, RunCfg};

fn arg_val(args: &[String], name: &str) -> Option<String> {
  args
    .iter()
    .position(|a| a == name)
    .and_then(|i| args.get(i + 1).cloned())
}

fn property(id: &str) -> Box<dyn Property> {
  match id {
    "C18" => Box::new(props_conc::c18()),
    "C19" => Box::new(props_conc::C19Prop {
      conc: props_conc::c19(),
    }),
    "C14" => Box::new(props_conc::c14()),
    "C10" => Box::new(props_conc::c10()),
    "C05" => Box::new(props_c05::C05),
    "C07" => Box::new(props_c07::C07),
    "C15" => Box::new(props_c15::C15Prop {
      thorough: std::env::var("VSIM_TIER").map_or(false, |t| t == "thorough"),
    }),
    other => {
      eprintln!("HARNESS-ERROR: unknown property {}", other);
      std::process::exit(2);
    }
  }
}

fn default_runs(id: &str, tier: &str) -> u64 {
  match (id, tier) {
    ("C18", "quick") => 300_000,
    ("C18", _) => 4_000_000,
    ("C19", "quick") => 200_000,
    ("C19", _) => 2_000_000,
    ("C05", "quick") => 400_000,
    ("C05", _) => 4_000_000,
    ("C07", "quick") => 200_000,
    ("C07", _) => 3_000_000,
    ("C15", "quick") => 400_000,
    ("C15", _) => 1_000_000,
    ("C14", "quick") => 400_000,
    ("C14", _) => 4_000_000,
    ("C10", "quick") => 400_000,
    ("C10", _) => 4_000_000,
    (_, "quick") => 40_000,
    _ => 1_000_000,
  }
}

fn main() {
  let args: Vec<String> = std::env::args().collect();
  if args.len() < 2 {
    eprintln!("usage: vsim run|replay|miri-one ...");
    std::process::exit(2);
  }
  sched::install();
  let verif_dir = std::env::var("VSIM_VERIF_DIR").unwrap_or_else(|_| "/verif".into());
  match args[1].as_str() {
    "run" => {
      let id = args.get(2).cloned().unwrap_or_default();
      let tier = arg_val(&args, "--tier")
        .or_else(|| std::env::var("VERIF_TIER").ok())
        .unwrap_or_else(|| "quick".into());
      std::env::set_var("VSIM_TIER", &tier);
      let p = property(&id);
      let seed: u64 = arg_val(&args, "--seed")
        .or_else(|| std::env::var("VERIF_SEED").ok())
        .and_then(|s| s.parse().ok())
        .unwrap_or(1);
      let runs: u64 = arg_val(&args, "--runs")
        .and_then(|s| s.parse().ok())
        .unwrap_or_else(|| default_runs(&id, &tier));
      let workers: usize = arg_val(&args, "--workers")
        .and_then(|s| s.parse().ok())
        .unwrap_or_else(|| std::thread::available_parallelism().map_or(4, |n| n.get()).min(16));
      let cfg = RunCfg {
        seed,
        runs,
        workers,
        tier,
        table: arg_val(&args, "--table"),
        verif_dir,
        max_reported: 3,
        write_evidence: !args.iter().any(|a| a == "--no-evidence"),
      };
      let code = driver::run_property(p.as_ref(), &cfg);
      std::process::exit(code);
    }
    "worker" => {
      let id = args.get(2).cloned().unwrap_or_default();
      let p = property(&id);
      let num = |name: &str| -> u64 {
        arg_val(&args, name).and_then(|s| s.parse().ok()).unwrap_or_else(|| {
          eprintln!("HARNESS-ERROR: worker needs {}", name);
          std::process::exit(2);
        })
      };
      driver::run_worker(
        p.as_ref(),
        num("--seed"),
        num("--runs"),
        num("--workers"),
        num("--worker-id"),
        args.iter().any(|a| a == "--want-table"),
        &arg_val(&args, "--out").unwrap_or_default(),
        &arg_val(&args, "--verif-dir").unwrap_or_else(|| verif_dir.clone()),
      );
    }
    "replay" => {
      let id = args.get(2).cloned().unwrap_or_default();
      let path = args.get(3).cloned().unwrap_or_default();
      let p = property(&id);
      let code = driver::replay_file(p.as_ref(), &path, args.iter().any(|a| a == "--trace"));
      std::process::exit(code);
    }
    "miri-one" => {
      let seed: u64 = args.get(2).and_then(|s| s.parse().ok()).unwrap_or(1);
      let index: u64 = args.get(3).and_then(|s| s.parse().ok()).unwrap_or(0);
      let mut p = props_conc::c19();
      p.judge.skip_baselines = true;
      p.judge.fatal_events = false;
      let case = p.generate(seed, index);
      let res = conc::check_conc(&case.scenario, &case.knobs, None, &p.judge);
      let rep = p.report(index, &case, &res);
      println!(
        "miri-one seed={} index={} family={:?} decisions={} log_hash={:016x} violations={}",
        seed,
        index,
        case.scenario.family,
        res.outcome.stats.decisions,
        rep.log_hash,
        rep.violations.len()
      );
      for v in &rep.violations {
        println!("  violation kind={} detail={}", v.kind, v.detail);
      }
      std::process::exit(if rep.violations.is_empty() { 0 } else { 1 });
    }
    "miri-batch" => {
      // miri-batch <seed> <from> <to> <step>: C19 scenarios without baselines
      let n = |i: usize| -> u64 { args.get(i).and_then(|s| s.parse().ok()).unwrap_or(0) };
      let (seed, from, to, step) = (n(2), n(3), n(4), n(5).max(1));
      let mut p = props_conc::c19();
      p.judge.skip_baselines = true;
      p.judge.fatal_events = false;
      let mut bad = 0;
      let mut i = from;
      while i < to {
        println!("start index={}", i);
        if i % 4 == 3 {
          // the native tier's rope-program population, same (seed, index)
          let mut rng = rng::Rng::new(rng::run_seed(seed, rng::str_hash("C19-rope"), i));
          let rc = rope_prog::gen_rope_case(&mut rng);
          let (vs, _) = rope_prog::check_rope_case(&rc);
          println!("done index={} family=\"rope program\" decisions=0 switches=0 lends=0 violations={}", i, vs.len());
          for v in &vs {
            println!("VIOLATION-CANDIDATE index={} kind={} detail={}", i, v.kind, v.detail);
            bad += 1;
          }
          i += step;
          continue;
        }
        let case = p.generate(seed, i);
        let res = conc::check_conc(&case.scenario, &case.knobs, None, &p.judge);
        println!(
          "done index={} family={:?} decisions={} switches={} lends={} violations={}",
          i,
          case.scenario.family,
          res.outcome.stats.decisions,
          res.outcome.stats.switches,
          res.outcome.stats.events.get("cache.lend").copied().unwrap_or(0),
          res.violations.len()
        );
        for v in &res.violations {
          println!("VIOLATION-CANDIDATE index={} kind={} detail={}", i, v.kind, v.detail);
          bad += 1;
        }
        i += step;
      }
      std::process::exit(if bad > 0 { 1 } else { 0 });
    }
    "miri-replay" => {
      // miri-replay <file>: re-execute a C19/C18 replay file (meant for `cargo miri run`)
      let path = args.get(2).cloned().unwrap_or_default();
      let text = std::fs::read_to_string(&path).expect("read replay file");
      let file: serde_json::Value = serde_json::from_str(&text).expect("parse replay file");
      let case: props_conc::ConcCase = serde_json::from_value(file["case"].clone()).expect("case");
      let mut p = props_conc::c19();
      p.judge.skip_baselines = true;
      p.judge.fatal_events = false;
      let res = conc::check_conc(&case.scenario, &case.knobs, case.schedule.clone(), &p.judge);
      println!("miri-replay decisions={} violations={}", res.outcome.stats.decisions, res.violations.len());
      for v in &res.violations {
        println!("VIOLATION-CANDIDATE kind={} detail={}", v.kind, v.detail);
      }
      std::process::exit(if res.violations.is_empty() { 0 } else { 1 });
    }
    "selftest" => {
      std::process::exit(selftest::run());
    }
    "case" => {
      // case <PROP> <seed> <index>: print the explicit case of a run
      let id = args.get(2).cloned().unwrap_or_default();
      let p = property(&id);
      let seed: u64 = args.get(3).and_then(|s| s.parse().ok()).unwrap_or(1);
      let index: u64 = args.get(4).and_then(|s| s.parse().ok()).unwrap_or(0);
      println!("{}", serde_json::to_string_pretty(&p.case_of(seed, index)).unwrap());
    }
    other => {
      eprintln!("HARNESS-ERROR: unknown command {}", other);
      std::process::exit(2);
    }
  }
}
