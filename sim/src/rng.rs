//! One integer decides everything: a small, dependency-free PRNG.
//! `splitmix64` derives independent streams; `Rng` is xoshiro256**.

pub fn splitmix64(x: u64) -> u64 {
  let mut z = x.wrapping_add(0x9E37_79B9_7F4A_7C15);
  z = (z ^ (z >> 30)).wrapping_mul(0xBF58_476D_1CE4_E5B9);
  z = (z ^ (z >> 27)).wrapping_mul(0x94D0_49BB_1331_11EB);
  z ^ (z >> 31)
}

/// Seed of run `index` of property stream `stream` under `VERIF_SEED = seed`.
/// A function of the run index only, never of the worker that executes it.
pub fn run_seed(seed: u64, stream: u64, index: u64) -> u64 {
  splitmix64(splitmix64(seed ^ splitmix64(stream)).wrapping_add(index.wrapping_mul(0xD1B5_4A32_D192_ED03)))
}

pub fn str_hash(s: &str) -> u64 {
  let mut h: u64 = 0xcbf2_9ce4_8422_2325;
  for b in s.bytes() {
    h ^= b as u64;
    h = h.wrapping_mul(0x0000_0100_0000_01B3);
  }
  h
}

#[derive(Clone, Debug)]
pub struct Rng {
  s: [u64; 4],
}

impl Rng {
  pub fn new(seed: u64) -> Self {
    let mut x = seed;
    let mut s = [0u64; 4];
    for v in s.iter_mut() {
      x = splitmix64(x);
      *v = x;
    }
    if s == [0; 4] {
      s[0] = 1;
    }
    Rng { s }
  }

  /// Independent child stream.
  pub fn fork(&mut self, tag: u64) -> Rng {
    Rng::new(self.next_u64() ^ splitmix64(tag))
  }

  pub fn next_u64(&mut self) -> u64 {
    let result = self.s[1].wrapping_mul(5).rotate_left(7).wrapping_mul(9);
    let t = self.s[1] << 17;
    self.s[2] ^= self.s[0];
    self.s[3] ^= self.s[1];
    self.s[1] ^= self.s[2];
    self.s[0] ^= self.s[3];
    self.s[2] ^= t;
    self.s[3] = self.s[3].rotate_left(45);
    result
  }

  /// Uniform in `0..n` (`n > 0`).
  pub fn below(&mut self, n: u64) -> u64 {
    debug_assert!(n > 0);
    // multiply-shift; bias is irrelevant at these sizes
    ((self.next_u64() as u128 * n as u128) >> 64) as u64
  }

  pub fn usize_below(&mut self, n: usize) -> usize {
    self.below(n as u64) as usize
  }

  /// Uniform in `lo..=hi`.
  pub fn range(&mut self, lo: u64, hi: u64) -> u64 {
    lo + self.below(hi - lo + 1)
  }

  /// True with probability `permille / 1000`.
  pub fn chance(&mut self, permille: u32) -> bool {
    self.below(1000) < permille as u64
  }

  pub fn pick<'a, T>(&mut self, xs: &'a [T]) -> &'a T {
    &xs[self.usize_below(xs.len())]
  }

  pub fn shuffle<T>(&mut self, xs: &mut [T]) {
    for i in (1..xs.len()).rev() {
      let j = self.usize_below(i + 1);
      xs.swap(i, j);
    }
  }
}

/// Thorough tier: deeper bounds (longer histories, more ops per thread,
/// larger trees). Read once from `VSIM_TIER` (set by `vsim run` for itself and
/// its worker processes); replayed cases are explicit and unaffected.
pub fn deep() -> bool {
  static DEEP: std::sync::OnceLock<bool> = std::sync::OnceLock::new();
  *DEEP.get_or_init(|| std::env::var("VSIM_TIER").map_or(false, |t| t == "thorough"))
}
