//! Token-passing deterministic scheduler.
//!
//! Simulated threads are real OS threads released one at a time: a token is
//! held by exactly one thread. Every shared-state access inside rspack-sources
//! (through the cfg-gated sync seam), every entry/exit/chunk of a user-defined
//! child source and every harness callback calls `step`, which logs the event,
//! asks the chooser who runs next, hands the token over and parks. The choice
//! of who runs is never left to the OS.

use std::{
  cell::{Cell, RefCell},
  collections::{BTreeMap, BTreeSet},
  panic::Location,
  sync::{Arc, Condvar, Mutex},
};

use rspack_sources::verif::{Hooks, Site};
use serde::{Deserialize, Serialize};

use crate::rng::{splitmix64, str_hash, Rng};

// ---------------------------------------------------------------------------
// schedule policies
// ---------------------------------------------------------------------------

#[derive(Clone, Debug, Serialize, Deserialize, PartialEq)]
pub enum Policy {
  /// At each decision switch to a random other runnable thread with
  /// probability `permille`/1000, else keep running.
  Walk { permille: u32 },
  /// PCT-style: random distinct priorities, `d` priority change points.
  Pct { depth: u32, horizon: u32 },
  /// Keep running unless blocked, with `k` forced switches at random decisions.
  Forced { k: u32, horizon: u32 },
  /// Default choice everywhere (single-threaded like; used for replay base).
  Default,
}

#[derive(Clone, Debug)]
enum Chooser {
  Walk { permille: u32, rng: Rng },
  Pct { prio: Vec<u32>, change: Vec<u64>, next_low: u32 },
  Forced { at: Vec<u64>, rng: Rng },
  Replay { devs: Vec<(u64, usize)>, pos: usize, diverged: bool },
}

impl Chooser {
  fn new(policy: &Policy, n: usize, seed: u64) -> Chooser {
    let mut rng = Rng::new(splitmix64(seed ^ 0x5ced));
    match policy {
      Policy::Walk { permille } => Chooser::Walk {
        permille: *permille,
        rng,
      },
      Policy::Pct { depth, horizon } => {
        let mut prio: Vec<u32> = (0..n as u32).map(|i| i + 1000).collect();
        rng.shuffle(&mut prio);
        let mut change: Vec<u64> = (0..*depth)
          .map(|_| rng.below((*horizon).max(1) as u64))
          .collect();
        change.sort_unstable();
        Chooser::Pct {
          prio,
          change,
          next_low: 999,
        }
      }
      Policy::Forced { k, horizon } => {
        let mut at: Vec<u64> = (0..*k)
          .map(|_| rng.below((*horizon).max(1) as u64))
          .collect();
        at.sort_unstable();
        Chooser::Forced { at, rng }
      }
      Policy::Default => Chooser::Replay {
        devs: vec![],
        pos: 0,
        diverged: false,
      },
    }
  }

  /// `me`: the deciding thread if it is still runnable. `runnable` is sorted
  /// and non-empty.
  fn choose(&mut self, idx: u64, me: Option<usize>, runnable: &[usize]) -> usize {
    let default = me.unwrap_or(runnable[0]);
    match self {
      Chooser::Walk { permille, rng } => {
        if runnable.len() > 1 && (me.is_none() || rng.chance(*permille)) {
          let others: Vec<usize> =
            runnable.iter().copied().filter(|t| Some(*t) != me).collect();
          *rng.pick(&others)
        } else {
          default
        }
      }
      Chooser::Pct {
        prio,
        change,
        next_low,
      } => {
        if let Some(m) = me {
          while change.first().is_some_and(|c| *c <= idx) {
            change.remove(0);
            prio[m] = *next_low;
            *next_low = next_low.saturating_sub(1);
          }
        }
        *runnable.iter().max_by_key(|t| prio[**t]).unwrap()
      }
      Chooser::Forced { at, rng } => {
        let mut force = false;
        while at.first().is_some_and(|c| *c <= idx) {
          at.remove(0);
          force = true;
        }
        if runnable.len() > 1 && (force || me.is_none()) {
          let others: Vec<usize> =
            runnable.iter().copied().filter(|t| Some(*t) != me).collect();
          *rng.pick(&others)
        } else {
          default
        }
      }
      Chooser::Replay {
        devs,
        pos,
        diverged,
      } => {
        // skip deviations whose decision index has passed
        while *pos < devs.len() && devs[*pos].0 < idx {
          *pos += 1;
          *diverged = true;
        }
        if *pos < devs.len() && devs[*pos].0 == idx {
          let t = devs[*pos].1;
          *pos += 1;
          if runnable.contains(&t) {
            return t;
          }
          *diverged = true;
        }
        default
      }
    }
  }
}

// ---------------------------------------------------------------------------
// simulation state
// ---------------------------------------------------------------------------

#[derive(Clone, Copy, Debug, PartialEq, Eq)]
enum Status {
  Runnable,
  Blocked,
  Done,
}

#[derive(Clone, Debug, Serialize, Deserialize, PartialEq)]
pub enum Abort {
  Deadlock { waiting: Vec<String> },
  StepBudget { decisions: u64 },
  Event { name: String, site: String },
}

/// Unwinding payload used to retire simulated threads after an abort.
pub struct SimAbort;

/// Unwinding payload of a cancelled stream (the harness callback unwinds).
pub struct Cancelled;

thread_local! {
  /// Collaborator fault armed for the op this thread is executing: the n-th
  /// fault point from now unwinds (once), see `fault_point`.
  static CHILD_FAULT: std::cell::Cell<Option<u32>> = const { std::cell::Cell::new(None) };
}

/// Arms a one-shot collaborator fault for the current thread; the returned
/// guard disarms it (also when the op unwinds for another reason).
pub struct FaultArmed;
pub fn arm_fault(at: u32) -> FaultArmed {
  CHILD_FAULT.with(|c| c.set(Some(at)));
  FaultArmed
}
impl Drop for FaultArmed {
  fn drop(&mut self) {
    CHILD_FAULT.with(|c| c.set(None));
  }
}

/// A place in *caller-supplied* code (a method of a user-defined child
/// source, a consumer callback) where the collaborator may fail: if a fault is
/// armed and its countdown is used up, the collaborator unwinds here, exactly
/// once. Not a scheduling point and draws nothing: schedules are unaffected.
pub fn fault_point() {
  let fire = CHILD_FAULT.with(|c| match c.get() {
    Some(0) => {
      c.set(None);
      true
    }
    Some(n) => {
      c.set(Some(n - 1));
      false
    }
    None => false,
  });
  if fire {
    std::panic::resume_unwind(Box::new(Cancelled));
  }
}

#[derive(Clone, Debug, Default, Serialize, Deserialize)]
pub struct SimStats {
  pub decisions: u64,
  pub switches: u64,
  pub blocked: BTreeMap<String, u64>,
  pub events: BTreeMap<String, u64>,
  pub log_hash: u64,
  pub deviations: Vec<(u64, usize)>,
  pub abort: Option<Abort>,
  pub replay_diverged: bool,
  /// ordered pairs of sites (thread switch between them), for coverage
  pub site_pairs: BTreeSet<(String, String)>,
  pub trace: Vec<String>,
}

struct State {
  n: usize,
  status: Vec<Status>,
  blocked_at: Vec<Option<String>>,
  current: Option<usize>,
  decisions: u64,
  budget: u64,
  chooser: Chooser,
  deviations: Vec<(u64, usize)>,
  log_hash: u64,
  abort: Option<Abort>,
  switches: u64,
  blocked_counts: BTreeMap<String, u64>,
  events: BTreeMap<String, u64>,
  last: Option<(usize, String)>,
  site_pairs: BTreeSet<(String, String)>,
  trace: Option<Vec<String>>,
  /// events that abort the run as soon as they are seen (native engine)
  fatal_events: &'static [&'static str],
}

pub struct Sim {
  state: Mutex<State>,
  cv: Condvar,
}

fn site_str(kind: &str, site: Site) -> String {
  // file name without directory keeps the string stable across checkouts
  let file = site.file().rsplit('/').next().unwrap_or(site.file());
  format!("{}@{}:{}", kind, file, site.line())
}

impl Sim {
  pub fn new(
    n: usize,
    policy: &Policy,
    sched_seed: u64,
    replay: Option<Vec<(u64, usize)>>,
    budget: u64,
    keep_trace: bool,
    fatal_events: &'static [&'static str],
  ) -> Arc<Sim> {
    let chooser = match replay {
      Some(devs) => Chooser::Replay {
        devs,
        pos: 0,
        diverged: false,
      },
      None => Chooser::new(policy, n, sched_seed),
    };
    Arc::new(Sim {
      state: Mutex::new(State {
        n,
        status: vec![Status::Runnable; n],
        blocked_at: vec![None; n],
        current: None,
        decisions: 0,
        budget,
        chooser,
        deviations: vec![],
        log_hash: 0x1234_5678_9abc_def0,
        abort: None,
        switches: 0,
        blocked_counts: BTreeMap::new(),
        events: BTreeMap::new(),
        last: None,
        site_pairs: BTreeSet::new(),
        trace: keep_trace.then(Vec::new),
        fatal_events,
      }),
      cv: Condvar::new(),
    })
  }

  fn lock(&self) -> std::sync::MutexGuard<'_, State> {
    self.state.lock().unwrap_or_else(|e| e.into_inner())
  }

  pub fn aborted(&self) -> bool {
    self.lock().abort.is_some()
  }

  fn choose(g: &mut State, me: Option<usize>) -> Option<usize> {
    let runnable: Vec<usize> = (0..g.n)
      .filter(|t| g.status[*t] == Status::Runnable)
      .collect();
    if runnable.is_empty() {
      return None;
    }
    let me_runnable = me.filter(|m| g.status[*m] == Status::Runnable);
    let default = me_runnable.unwrap_or(runnable[0]);
    let idx = g.decisions;
    let pick = g.chooser.choose(idx, me_runnable, &runnable);
    if pick != default {
      g.deviations.push((idx, pick));
    }
    Some(pick)
  }

  /// Let the first thread run. Call after all threads have been spawned.
  pub fn start(&self) {
    let mut g = self.lock();
    let next = Self::choose(&mut g, None);
    g.decisions += 1;
    g.current = next;
    self.cv.notify_all();
  }

  fn wait_turn(&self, me: usize) {
    let mut g = self.lock();
    while g.current != Some(me) && g.abort.is_none() {
      g = self.cv.wait(g).unwrap_or_else(|e| e.into_inner());
    }
    if g.abort.is_some() {
      drop(g);
      std::panic::resume_unwind(Box::new(SimAbort));
    }
  }

  fn finish(&self, me: usize) {
    let mut g = self.lock();
    g.status[me] = Status::Done;
    g.blocked_at[me] = None;
    for t in 0..g.n {
      if g.status[t] == Status::Blocked {
        g.status[t] = Status::Runnable;
      }
    }
    if g.abort.is_some() {
      self.cv.notify_all();
      return;
    }
    g.log_hash = splitmix64(g.log_hash ^ (0xF1 + me as u64));
    let next = Self::choose(&mut g, None);
    g.decisions += 1;
    g.current = next;
    self.cv.notify_all();
  }

  fn step(&self, me: usize, kind: &'static str, site: Site, blocked: bool) {
    let mut g = self.lock();
    if g.abort.is_some() {
      drop(g);
      std::panic::resume_unwind(Box::new(SimAbort));
    }
    debug_assert_eq!(g.current, Some(me), "step by a thread without the token");
    let s = site_str(kind, site);
    g.log_hash = splitmix64(
      g.log_hash
        ^ str_hash(&s)
        ^ ((me as u64) << 56)
        ^ if blocked { 1 << 55 } else { 0 },
    );
    if let Some(trace) = g.trace.as_mut() {
      trace.push(format!("T{} {}{}", me, if blocked { "BLOCKED " } else { "" }, s));
    }
    if let Some((t, last)) = g.last.take() {
      if t != me && g.site_pairs.len() < 4096 {
        g.site_pairs.insert((last, s.clone()));
      }
    }
    if g.decisions >= g.budget {
      g.abort = Some(Abort::StepBudget {
        decisions: g.decisions,
      });
      self.cv.notify_all();
      drop(g);
      std::panic::resume_unwind(Box::new(SimAbort));
    }
    if blocked {
      g.status[me] = Status::Blocked;
      *g.blocked_counts.entry(kind.to_string()).or_insert(0) += 1;
      g.blocked_at[me] = Some(s.clone());
    } else {
      g.blocked_at[me] = None;
      for t in 0..g.n {
        if g.status[t] == Status::Blocked {
          g.status[t] = Status::Runnable;
        }
      }
    }
    g.last = Some((me, s));
    let next = Self::choose(&mut g, Some(me));
    g.decisions += 1;
    match next {
      None => {
        let waiting = (0..g.n)
          .filter(|t| g.status[*t] == Status::Blocked)
          .map(|t| {
            format!("T{} waits at {}", t, g.blocked_at[t].clone().unwrap_or_default())
          })
          .collect();
        g.abort = Some(Abort::Deadlock { waiting });
        self.cv.notify_all();
        drop(g);
        std::panic::resume_unwind(Box::new(SimAbort));
      }
      Some(n) if n != me => {
        g.current = Some(n);
        g.switches += 1;
        self.cv.notify_all();
        while g.current != Some(me) && g.abort.is_none() {
          g = self.cv.wait(g).unwrap_or_else(|e| e.into_inner());
        }
        if g.abort.is_some() {
          drop(g);
          std::panic::resume_unwind(Box::new(SimAbort));
        }
      }
      _ => {}
    }
  }

  fn event(&self, me: usize, name: &'static str, site: Site) {
    let mut g = self.lock();
    *g.events.entry(name.to_string()).or_insert(0) += 1;
    let s = site_str(name, site);
    g.log_hash = splitmix64(g.log_hash ^ str_hash(&s) ^ ((me as u64) << 48) ^ 0xE);
    if let Some(trace) = g.trace.as_mut() {
      trace.push(format!("T{} EVENT {}", me, s));
    }
    if g.fatal_events.contains(&name) && g.abort.is_none() {
      g.abort = Some(Abort::Event {
        name: name.to_string(),
        site: s,
      });
      // the calling thread keeps the token until its next point and unwinds there
    }
  }

  pub fn stats(&self) -> SimStats {
    let g = self.lock();
    let diverged = match &g.chooser {
      Chooser::Replay { diverged, pos, devs } => *diverged || *pos < devs.len(),
      _ => false,
    };
    SimStats {
      decisions: g.decisions,
      switches: g.switches,
      blocked: g.blocked_counts.clone(),
      events: g.events.clone(),
      log_hash: g.log_hash,
      deviations: g.deviations.clone(),
      abort: g.abort.clone(),
      replay_diverged: diverged,
      site_pairs: g.site_pairs.clone(),
      trace: g.trace.clone().unwrap_or_default(),
    }
  }
}

// ---------------------------------------------------------------------------
// thread-local context + hooks
// ---------------------------------------------------------------------------

pub const N_UNSAFE_SITES: usize = 15;
pub const UNSAFE_SITES: [&str; N_UNSAFE_SITES] = [
  "rope.rs:get_byte_slice_impl:same_chunk",
  "rope.rs:get_byte_slice_impl:multi_chunk",
  "rope.rs:byte_slice_unchecked:light",
  "rope.rs:byte_slice_unchecked:same_chunk_index",
  "rope.rs:byte_slice_unchecked:same_chunk_range",
  "rope.rs:byte_slice_unchecked:multi_chunk_index",
  "rope.rs:byte_slice_unchecked:multi_chunk_first",
  "rope.rs:byte_slice_unchecked:multi_chunk_last",
  "with_indices.rs:substring",
  "helpers.rs:str_byte_slice_unchecked",
  "encoder.rs:drain:full",
  "encoder.rs:drain:lines_only",
  "replace_source.rs:stream_chunks:replacement_borrow",
  "cached_source.rs:stream_chunks:cached_map_borrow",
  "<unknown site>",
];

thread_local! {
  static CTX: RefCell<Option<(Arc<Sim>, usize)>> = const { RefCell::new(None) };
  static SHARDS: Cell<Option<u64>> = const { Cell::new(None) };
  static UNSAFE_HITS: Cell<[u64; N_UNSAFE_SITES]> = const { Cell::new([0; N_UNSAFE_SITES]) };
  static UNSAFE_FAILS: RefCell<Vec<&'static str>> = const { RefCell::new(Vec::new()) };
  static SEQ_EVENTS: RefCell<BTreeMap<&'static str, u64>> = const { RefCell::new(BTreeMap::new()) };
  static QUIET: Cell<bool> = const { Cell::new(false) };
  static SEQ_SPINS: Cell<u64> = const { Cell::new(0) };
  static SEQ_DEADLOCKS: RefCell<Vec<String>> = const { RefCell::new(Vec::new()) };
  static LAST_PANIC: RefCell<Option<String>> = const { RefCell::new(None) };
}

static GLOBAL_UNSAFE_HITS: Mutex<[u64; N_UNSAFE_SITES]> =
  Mutex::new([0; N_UNSAFE_SITES]);

pub fn set_shards(n: Option<u64>) {
  SHARDS.with(|s| s.set(n));
}

/// Move this thread's unsafe-site hit counters into the global table.
pub fn flush_unsafe_hits() {
  let hits = UNSAFE_HITS.with(|h| h.replace([0; N_UNSAFE_SITES]));
  if hits.iter().any(|h| *h != 0) {
    let mut g = GLOBAL_UNSAFE_HITS.lock().unwrap_or_else(|e| e.into_inner());
    for i in 0..N_UNSAFE_SITES {
      g[i] += hits[i];
    }
  }
}

pub fn global_unsafe_hits() -> BTreeMap<String, u64> {
  let g = GLOBAL_UNSAFE_HITS.lock().unwrap_or_else(|e| e.into_inner());
  UNSAFE_SITES
    .iter()
    .zip(g.iter())
    .map(|(s, n)| (s.to_string(), *n))
    .collect()
}

/// Precondition failures seen by this thread since the last call.
pub fn take_unsafe_fails() -> Vec<&'static str> {
  UNSAFE_FAILS.with(|f| std::mem::take(&mut *f.borrow_mut()))
}

/// Events raised on this thread outside a simulation since the last call.
pub fn take_seq_events() -> BTreeMap<&'static str, u64> {
  SEQ_EVENTS.with(|f| std::mem::take(&mut *f.borrow_mut()))
}

/// Self-deadlocks seen by this thread outside a simulation since the last call.
pub fn take_seq_deadlocks() -> Vec<String> {
  SEQ_SPINS.with(|c| c.set(0));
  SEQ_DEADLOCKS.with(|d| std::mem::take(&mut *d.borrow_mut()))
}

pub fn set_quiet(q: bool) {
  QUIET.with(|c| c.set(q));
}

pub fn take_last_panic() -> Option<String> {
  LAST_PANIC.with(|p| p.borrow_mut().take())
}

struct VsimHooks;

impl Hooks for VsimHooks {
  fn point(&self, kind: &'static str, site: Site) {
    let ctx = CTX.with(|c| c.borrow().clone());
    if let Some((sim, me)) = ctx {
      sim.step(me, kind, site, false);
    }
  }

  fn blocked(&self, kind: &'static str, site: Site) {
    let ctx = CTX.with(|c| c.borrow().clone());
    match ctx {
      Some((sim, me)) => sim.step(me, kind, site, true),
      None => {
        // Outside a simulation there is only this thread: waiting for a lock
        // can only mean it waits for itself (a lock left held by an earlier,
        // cancelled call, or re-entrancy). Report instead of spinning forever.
        let n = SEQ_SPINS.with(|c| {
          c.set(c.get() + 1);
          c.get()
        });
        if n > 10_000 {
          SEQ_SPINS.with(|c| c.set(0));
          SEQ_DEADLOCKS.with(|d| d.borrow_mut().push(site_str(kind, site)));
          panic!("vsim: single-threaded call waits forever at {}", site_str(kind, site));
        }
        std::thread::yield_now()
      }
    }
  }

  fn event(&self, name: &'static str, site: Site) {
    let ctx = CTX.with(|c| c.borrow().clone());
    match ctx {
      Some((sim, me)) => sim.event(me, name, site),
      None => SEQ_EVENTS.with(|e| *e.borrow_mut().entry(name).or_insert(0) += 1),
    }
  }

  fn unsafe_site(&self, site: &'static str, ok: bool) {
    let idx = UNSAFE_SITES
      .iter()
      .position(|s| *s == site)
      .unwrap_or(N_UNSAFE_SITES - 1);
    UNSAFE_HITS.with(|h| {
      let mut a = h.get();
      a[idx] += 1;
      h.set(a);
    });
    if !ok {
      UNSAFE_FAILS.with(|f| f.borrow_mut().push(site));
    }
  }

  fn knob(&self, name: &'static str) -> Option<u64> {
    match name {
      "dashmap.shards" => SHARDS.with(|s| s.get()),
      _ => None,
    }
  }
}

static HOOKS: VsimHooks = VsimHooks;

/// Install hooks and the quiet panic hook. Idempotent.
pub fn install() {
  rspack_sources::verif::install(&HOOKS);
  static ONCE: std::sync::Once = std::sync::Once::new();
  ONCE.call_once(|| {
    let default = std::panic::take_hook();
    std::panic::set_hook(Box::new(move |info| {
      let msg = if let Some(s) = info.payload().downcast_ref::<&str>() {
        s.to_string()
      } else if let Some(s) = info.payload().downcast_ref::<String>() {
        s.clone()
      } else {
        "<non-string panic payload>".to_string()
      };
      let loc = info
        .location()
        .map(|l| format!("{}:{}", l.file().rsplit('/').next().unwrap_or(""), l.line()))
        .unwrap_or_default();
      let quiet = (QUIET.with(|q| q.get()) || CTX.with(|c| c.borrow().is_some()))
        && std::env::var_os("VSIM_LOUD").is_none();
      LAST_PANIC.with(|p| *p.borrow_mut() = Some(format!("{} [{}]", msg, loc)));
      if !quiet {
        default(info);
      }
    }));
  });
}

/// A schedule point inside harness code (user-defined child source, callback,
/// between two operations of a simulated thread).
#[track_caller]
pub fn user_point(kind: &'static str) {
  let site = Location::caller();
  let ctx = CTX.with(|c| c.borrow().clone());
  if let Some((sim, me)) = ctx {
    sim.step(me, kind, site, false);
  }
}

pub fn in_sim() -> bool {
  CTX.with(|c| c.borrow().is_some())
}

/// Run `bodies` as simulated threads under `sim`. Returns when all are done.
/// Each body gets its thread index.
pub fn run_threads<'env>(
  sim: &Arc<Sim>,
  shards: Option<u64>,
  bodies: Vec<Box<dyn FnOnce(usize) + Send + 'env>>,
) {
  std::thread::scope(|scope| {
    for (i, body) in bodies.into_iter().enumerate() {
      let sim = sim.clone();
      std::thread::Builder::new()
        .stack_size(512 * 1024)
        .spawn_scoped(scope, move || {
          CTX.with(|c| *c.borrow_mut() = Some((sim.clone(), i)));
          set_shards(shards);
          let _ = std::panic::catch_unwind(std::panic::AssertUnwindSafe(|| {
            sim.wait_turn(i);
            body(i);
          }));
          CTX.with(|c| *c.borrow_mut() = None);
          sim.finish(i);
          flush_unsafe_hits();
        })
        .expect("spawn simulated thread");
    }
    sim.start();
  });
}
