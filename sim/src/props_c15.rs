//! C15 — SourceMap JSON serialisation is valid and round-trips, written
//! through a simulated disk and read back through a fragmenting / failing /
//! truncated reader. `serde_json` is the independent parser.

use rspack_sources::SourceMap;
use serde::{Deserialize, Serialize};
use serde_json::{json, Map, Value};

use crate::{
  conc::{Counters, Violation},
  driver::{Property, RunReport},
  io::{ReaderPlan, SimReader, SimWriter},
  rng::{run_seed, splitmix64, str_hash, Rng},
  sched,
  spec::{FailKind, MapSpec, WriterPlan},
};

const NASTY: &[&str] = &[
  "\"", "\\", "/", "\u{0}", "\u{1}", "\u{8}", "\t", "\n", "\r", "\u{c}", "\u{1f}", "\u{7f}", "\u{80}",
  "\u{2028}", "\u{2029}", "\u{feff}", "é", "中", "😀", "\u{10ffff}", "\u{fffd}", "a", "b", "Z", "0", " ",
  "\\n", "\\u0041", "\"}", "{\"", ":", ",", "[", "]", "null", "\u{e000}", "\u{d7ff}",
];

fn nasty_string(rng: &mut Rng, max: usize) -> String {
  let n = match rng.below(8) {
    0 => 0,
    1 => 1,
    _ => rng.usize_below(max + 1),
  };
  (0..n).map(|_| *rng.pick(NASTY)).collect()
}

/// Either a `SourceMap` value, or a hand-written document.
#[derive(Clone, Debug, Serialize, Deserialize)]
pub enum Doc {
  Value(MapSpec),
  /// keys in order; arrays may contain nulls; any field may be missing
  Raw {
    text: String,
    /// what a correct parser must produce
    expect: MapSpec,
  },
}

#[derive(Clone, Debug, Serialize, Deserialize)]
pub struct C15Case {
  pub kind: String, // "json"
  pub doc: Doc,
  pub writer: WriterPlan,
  pub reader: ReaderPlan,
  /// offsets at which a hard write error / truncation / hard read error is
  /// injected (empty in `all_offsets` mode, where every offset is used)
  pub offsets: Vec<u64>,
  pub all_offsets: bool,
  /// history on the value: it (and a clone, and its Debug form) is serialised
  /// once, then these setter calls are applied, and only then the pipeline
  /// runs — the document must describe the value as it is *now*
  #[serde(default)]
  pub edits: Vec<Edit>,
}

/// One setter call on a `SourceMap`.
#[derive(Clone, Debug, Serialize, Deserialize, PartialEq)]
pub enum Edit {
  File(Option<String>),
  Sources(Vec<String>),
  SourcesContent(Vec<String>),
  Names(Vec<String>),
  SourceRoot(Option<String>),
  DebugId(Option<String>),
}

pub struct C15;

/// The `mappings` member is a string like any other: mostly well-formed VLQ,
/// sometimes arbitrary text (`SourceMap::new` takes any string, and a parsed
/// document may carry any string there).
fn gen_mappings(rng: &mut Rng) -> String {
  match rng.below(8) {
    0 => String::new(),
    1 | 2 => "AAAA;;AACA,CAAC".to_string(),
    3 => ";;;".to_string(),
    4 => {
      let mut s = String::from("AAAA");
      s.push_str(&nasty_string(rng, 4));
      s
    }
    5 => nasty_string(rng, 6),
    _ => "AAAA".to_string(),
  }
}

fn gen_value(rng: &mut Rng) -> MapSpec {
  // 1 in 100: a table with more entries than an 8-bit index / a small inline
  // table holds; 1 in 2000: more than 2^16
  let many = |rng: &mut Rng| -> Option<usize> {
    if rng.chance(10) {
      Some(crate::gen::magic_count(rng, 10))
    } else if rng.below(2000) == 0 {
      Some(65_535 + rng.usize_below(4))
    } else {
      None
    }
  };
  let ns = many(rng).unwrap_or_else(|| rng.usize_below(6));
  let sources: Vec<String> = if ns > 8 {
    (0..ns).map(|i| if i % 50 == 7 { nasty_string(rng, 3) } else { format!("s{}", i) }).collect()
  } else {
    (0..ns).map(|_| nasty_string(rng, 5)).collect()
  };
  let sources_content: Vec<String> = match rng.below(5) {
    0 => vec![],
    1 => (0..ns).map(|_| String::new()).collect(),
    2 => (0..ns + 1).map(|i| if i == 0 { String::new() } else { nasty_string(rng, 6) }).collect(),
    _ => (0..ns).map(|_| nasty_string(rng, 8)).collect(),
  };
  let mut sources_content = sources_content;
  if rng.chance(15) && !sources_content.is_empty() {
    // big-document swarm mode: beyond 8 KiB / 64 KiB buffer and block sizes
    let unit = nasty_string(rng, 6) + "line;\n";
    let target = *rng.pick(&[8190usize, 8193, 65530, 65537, 140_000]);
    let mut big = String::new();
    while big.len() < target {
      big.push_str(&unit);
    }
    let i = rng.usize_below(sources_content.len());
    sources_content[i] = big;
  }
  let nn = many(rng).unwrap_or_else(|| rng.usize_below(6));
  let opt = |rng: &mut Rng| if rng.chance(400) { Some(nasty_string(rng, 4)) } else { None };
  MapSpec {
    mappings: gen_mappings(rng),
    sources,
    sources_content,
    names: if nn > 8 {
      (0..nn).map(|i| if i % 50 == 9 { nasty_string(rng, 3) } else { format!("n{}", i) }).collect()
    } else {
      (0..nn).map(|_| nasty_string(rng, 4)).collect()
    },
    file: opt(rng),
    source_root: opt(rng),
    debug_id: opt(rng),
  }
}

fn gen_raw(rng: &mut Rng) -> Doc {
  // build field list, then serialise by hand (order, nulls, unknown keys)
  let mut expect = MapSpec {
    mappings: match rng.below(10) {
      0..=4 => "AAAA;AACA".into(),
      5 => nasty_string(rng, 5),
      _ => String::new(),
    },
    sources: vec![],
    sources_content: vec![],
    names: vec![],
    file: None,
    source_root: None,
    debug_id: None,
  };
  let mut fields: Vec<(String, Value)> = vec![("mappings".into(), json!(expect.mappings))];
  if rng.chance(700) {
    fields.push(("version".into(), json!(3)));
  }
  let arr = |rng: &mut Rng, out: &mut Vec<String>| -> Value {
    let n = rng.usize_below(6);
    let mut v = vec![];
    for _ in 0..n {
      if rng.chance(300) {
        v.push(Value::Null);
        out.push(String::new());
      } else {
        let s = nasty_string(rng, 4);
        out.push(s.clone());
        v.push(json!(s));
      }
    }
    Value::Array(v)
  };
  // each table: an array (with null entries), missing, or `null` as a whole
  // (a document with nulls; reads like a missing table)
  if rng.chance(700) {
    let v = arr(rng, &mut expect.sources);
    fields.push(("sources".into(), v));
  } else if rng.chance(300) {
    fields.push(("sources".into(), Value::Null));
  }
  if rng.chance(600) {
    let v = arr(rng, &mut expect.sources_content);
    fields.push(("sourcesContent".into(), v));
  } else if rng.chance(300) {
    fields.push(("sourcesContent".into(), Value::Null));
  }
  if rng.chance(600) {
    let v = arr(rng, &mut expect.names);
    fields.push(("names".into(), v));
  } else if rng.chance(300) {
    fields.push(("names".into(), Value::Null));
  }
  for (key, slot) in [("file", 0), ("sourceRoot", 1), ("debugId", 2)] {
    match rng.below(4) {
      0 => {
        let s = nasty_string(rng, 4);
        match slot {
          0 => expect.file = Some(s.clone()),
          1 => expect.source_root = Some(s.clone()),
          _ => expect.debug_id = Some(s.clone()),
        }
        fields.push((key.into(), json!(s)));
      }
      1 => fields.push((key.into(), Value::Null)),
      _ => {}
    }
  }
  if rng.chance(400) {
    fields.push(("x_unknown".into(), json!({"nested": [1, 2, {"a": null}], "s": "\u{2028}"})));
  }
  if rng.chance(200) {
    fields.push(("ignoreList".into(), json!([0])));
  }
  rng.shuffle(&mut fields);
  let ws = |rng: &mut Rng| *rng.pick(&["", "", " ", "\n", "\t ", "\r\n"]);
  let mut text = String::from("{");
  text.push_str(ws(rng));
  for (i, (k, v)) in fields.iter().enumerate() {
    if i > 0 {
      text.push(',');
      text.push_str(ws(rng));
    }
    text.push_str(&serde_json::to_string(k).unwrap());
    text.push_str(ws(rng));
    text.push(':');
    text.push_str(ws(rng));
    text.push_str(&serde_json::to_string(v).unwrap());
  }
  text.push_str(ws(rng));
  text.push('}');
  Doc::Raw { text, expect }
}

fn all_empty(v: &[String]) -> bool {
  v.iter().all(|s| s.is_empty())
}

/// Compare a parsed map with the expected fields.
fn same_fields(m: &SourceMap, e: &MapSpec, after_own_serialisation: bool) -> Option<String> {
  if m.mappings() != e.mappings {
    return Some(format!("mappings {:?} != {:?}", m.mappings(), e.mappings));
  }
  if m.sources() != e.sources.as_slice() {
    return Some(format!("sources {:?} != {:?}", m.sources(), e.sources));
  }
  if m.names() != e.names.as_slice() {
    return Some(format!("names {:?} != {:?}", m.names(), e.names));
  }
  if m.file() != e.file.as_deref() {
    return Some(format!("file {:?} != {:?}", m.file(), e.file));
  }
  if m.source_root() != e.source_root.as_deref() {
    return Some(format!("sourceRoot {:?} != {:?}", m.source_root(), e.source_root));
  }
  if m.get_debug_id() != e.debug_id.as_deref() {
    return Some(format!("debugId {:?} != {:?}", m.get_debug_id(), e.debug_id));
  }
  let expect_content: &[String] = if after_own_serialisation && all_empty(&e.sources_content) {
    &[]
  } else {
    &e.sources_content
  };
  if m.sources_content() != expect_content {
    return Some(format!("sourcesContent {:?} != {:?}", m.sources_content(), expect_content));
  }
  None
}

/// The same strings with one entry boundary moved: a character moved from the
/// end of one entry to the front of the next, or an empty entry swapped with
/// its neighbour. `None` when no table allows it (or the tables are huge).
fn near_twin(e: &MapSpec) -> Option<MapSpec> {
  let mut t = e.clone();
  let mut changed = false;
  for table in [&mut t.names, &mut t.sources, &mut t.sources_content] {
    if table.len() < 2 || table.len() > 64 {
      continue;
    }
    for i in 0..table.len() - 1 {
      if table[i].is_empty() != table[i + 1].is_empty() {
        table.swap(i, i + 1);
        changed = true;
        break;
      }
      if let Some(c) = table[i].pop() {
        table[i + 1].insert(0, c);
        changed = true;
        break;
      }
    }
  }
  changed.then_some(t)
}

/// A document for `e`, written with the independent serialiser.
fn twin_document(e: &MapSpec) -> String {
  let mut o = Map::new();
  o.insert("version".into(), json!(3));
  o.insert("sources".into(), json!(e.sources));
  if !e.sources_content.is_empty() {
    o.insert("sourcesContent".into(), json!(e.sources_content));
  }
  o.insert("names".into(), json!(e.names));
  o.insert("mappings".into(), json!(e.mappings));
  for (k, v) in [("file", &e.file), ("sourceRoot", &e.source_root), ("debugId", &e.debug_id)] {
    if let Some(v) = v {
      o.insert(k.into(), json!(v));
    }
  }
  Value::Object(o).to_string()
}

fn strs(v: &Value) -> Option<Vec<String>> {
  v.as_array()?.iter().map(|x| x.as_str().map(|s| s.to_string())).collect()
}

/// The independent parser's view of a document produced by `to_json`.
fn independent_check(j: &str, e: &MapSpec) -> Option<String> {
  let v: Value = match serde_json::from_str(j) {
    Ok(v) => v,
    Err(err) => return Some(format!("serde_json rejects the document: {}", err)),
  };
  let o: &Map<String, Value> = match v.as_object() {
    Some(o) => o,
    None => return Some("document is not an object".into()),
  };
  if o.get("version") != Some(&json!(3)) {
    return Some(format!("version is {:?}", o.get("version")));
  }
  if o.get("mappings").and_then(|x| x.as_str()) != Some(e.mappings.as_str()) {
    return Some(format!("mappings field is {:?}", o.get("mappings")));
  }
  if o.get("sources").and_then(strs).as_deref() != Some(e.sources.as_slice()) {
    return Some(format!("sources field is {:?}", o.get("sources")));
  }
  if o.get("names").and_then(strs).as_deref() != Some(e.names.as_slice()) {
    return Some(format!("names field is {:?}", o.get("names")));
  }
  for (key, want) in [("file", &e.file), ("sourceRoot", &e.source_root), ("debugId", &e.debug_id)] {
    match (o.get(key), want) {
      (None, None) => {}
      (Some(Value::String(s)), Some(w)) if s == w => {}
      (got, want) => return Some(format!("{} field is {:?}, expected {:?}", key, got, want)),
    }
  }
  match o.get("sourcesContent") {
    None if all_empty(&e.sources_content) => {}
    Some(v) if !all_empty(&e.sources_content) && strs(v).as_deref() == Some(e.sources_content.as_slice()) => {}
    got => return Some(format!("sourcesContent field is {:?}, expected {:?} (omitted exactly when all entries are empty)", got, e.sources_content)),
  }
  let known = ["version", "file", "sources", "sourcesContent", "names", "mappings", "sourceRoot", "debugId"];
  for k in o.keys() {
    if !known.contains(&k.as_str()) {
      return Some(format!("unexpected key {:?}", k));
    }
  }
  None
}

/// Offsets at which write errors / truncation / read errors are injected:
/// every offset for small documents in `all_offsets` mode; otherwise the
/// case's sampled offsets (taken modulo the length), the ends, and for large
/// documents the offsets around 8 KiB and 64 KiB block boundaries.
fn fault_offsets(case: &C15Case, len: u64) -> Vec<u64> {
  if len == 0 {
    return vec![];
  }
  if case.all_offsets && len <= 2000 {
    return (0..len).collect();
  }
  let mut v: Vec<u64> = case.offsets.iter().map(|o| o % len).collect();
  v.extend([0, 1, len - 1, len / 2]);
  for b in [8192u64, 65536, 131072] {
    if b + 1 < len {
      v.extend([b - 1, b, b + 1]);
    }
  }
  v.sort_unstable();
  v.dedup();
  v
}

pub fn check_case(case: &C15Case) -> (Vec<Violation>, Counters) {
  sched::set_quiet(true);
  let mut counters = Counters::default();
  let mut out: Vec<Violation> = vec![];
  let mut bad = |kind: &str, class: &str, detail: String| {
    out.push(Violation {
      kind: kind.into(),
      op_class: class.into(),
      detail,
    })
  };
  let guard = |f: &mut dyn FnMut() -> Option<(String, String, String)>| -> Option<(String, String, String)> {
    match std::panic::catch_unwind(std::panic::AssertUnwindSafe(|| f())) {
      Ok(r) => r,
      Err(_) => Some((
        "panic".into(),
        "json".into(),
        format!("panicked: {}", sched::take_last_panic().unwrap_or_default()),
      )),
    }
  };

  // the document bytes J and what parsing it must give
  let (j, expect, own): (String, MapSpec, bool) = match &case.doc {
    Doc::Value(spec0) => {
      let mut m = spec0.build();
      let mut spec_now = spec0.clone();
      if !case.edits.is_empty() {
        counters.inc("population:values_with_setter_history");
        // serialise once (directly, through a clone, and through Debug) ...
        let _ = std::panic::catch_unwind(std::panic::AssertUnwindSafe(|| {
          let _ = m.clone().to_json();
          let mut sink = Vec::new();
          let _ = m.clone().to_writer(&mut sink);
          let _ = format!("{:?}", m);
        }));
        // ... then edit the same value
        for e in &case.edits {
          match e {
            Edit::File(v) => {
              m.set_file(v.clone());
              spec_now.file = v.clone();
            }
            Edit::Sources(v) => {
              m.set_sources(v.clone());
              spec_now.sources = v.clone();
            }
            Edit::SourcesContent(v) => {
              m.set_sources_content(v.clone());
              spec_now.sources_content = v.clone();
            }
            Edit::Names(v) => {
              m.set_names(v.clone());
              spec_now.names = v.clone();
            }
            Edit::SourceRoot(v) => {
              m.set_source_root(v.clone());
              spec_now.source_root = v.clone();
            }
            Edit::DebugId(v) => {
              m.set_debug_id(v.clone());
              spec_now.debug_id = v.clone();
            }
          }
        }
      }
      let spec = &spec_now;
      let j = match std::panic::catch_unwind(std::panic::AssertUnwindSafe(|| m.clone().to_json())) {
        Ok(Ok(j)) => j,
        Ok(Err(e)) => {
          bad("to_json_failed", "to_json", format!("to_json returned Err: {}", e));
          return (out, counters);
        }
        Err(_) => {
          bad("panic", "to_json", format!("to_json panicked: {}", sched::take_last_panic().unwrap_or_default()));
          return (out, counters);
        }
      };
      if let Some(d) = independent_check(&j, spec) {
        bad("invalid_document", "to_json", format!("{} — document: {}", d, j));
      }
      // to_writer through the simulated disk, fragmentation only
      let mut w = SimWriter::new(
        WriterPlan {
          fail_at: None,
          zero_at: None,
          ..case.writer.clone()
        },
        1,
      );
      let r = std::panic::catch_unwind(std::panic::AssertUnwindSafe(|| m.clone().to_writer(&mut w)));
      counters.add("fault:short_write_fired", w.stats.short_writes);
      counters.add("fault:eintr_fired", w.stats.eintr);
      match r {
        Ok(Ok(())) => {
          if w.accepted != j.as_bytes() {
            bad(
              "to_writer_differs",
              "to_writer",
              format!("to_writer wrote {:?} but to_json gives {:?}", String::from_utf8_lossy(&w.accepted), j),
            );
          }
        }
        Ok(Err(e)) => bad("to_writer_failed", "to_writer", format!("to_writer failed under fragmentation only: {}", e)),
        Err(_) => bad("panic", "to_writer", format!("to_writer panicked: {}", sched::take_last_panic().unwrap_or_default())),
      }
      // hard write error at k
      let ks: Vec<u64> = fault_offsets(case, j.len() as u64);
      for k in ks.iter().copied().filter(|k| *k < j.len() as u64) {
        let mut w = SimWriter::new(
          WriterPlan {
            fail_at: Some(k),
            fail_kind: FailKind::StorageFull,
            zero_at: None,
            ..case.writer.clone()
          },
          2,
        );
        let r = std::panic::catch_unwind(std::panic::AssertUnwindSafe(|| m.clone().to_writer(&mut w)));
        counters.add("fault:hard_write_error_fired", w.stats.hard_errors);
        match r {
          Ok(Ok(())) => bad("write_error_swallowed", "to_writer", format!("disk failed after {} bytes but to_writer returned Ok", k)),
          Ok(Err(_)) => {
            if !j.as_bytes().starts_with(&w.accepted) || w.accepted.len() as u64 != k {
              bad(
                "torn_write",
                "to_writer",
                format!("after a disk error at byte {} the file holds {:?}, not the first {} bytes of the document", k, String::from_utf8_lossy(&w.accepted), k),
              );
            }
          }
          Err(_) => bad("panic", "to_writer", format!("to_writer panicked on a disk error at byte {}: {}", k, sched::take_last_panic().unwrap_or_default())),
        }
      }
      // a sink that is full: it answers a non-empty write with Ok(0) at byte k
      for k in ks.iter().copied().filter(|k| *k < j.len() as u64).take(4) {
        let mut w = SimWriter::new(
          WriterPlan {
            fail_at: None,
            zero_at: Some(k),
            ..case.writer.clone()
          },
          3,
        );
        let r = std::panic::catch_unwind(std::panic::AssertUnwindSafe(|| m.clone().to_writer(&mut w)));
        counters.add("fault:write_zero_fired", w.stats.zero_returns);
        match r {
          Ok(Ok(())) => bad(
            "full_sink_reported_as_success",
            "to_writer",
            format!("the sink accepted only {} of {} bytes (it returned Ok(0)), yet to_writer returned Ok", w.accepted.len(), j.len()),
          ),
          Ok(Err(_)) => {
            if !j.as_bytes().starts_with(&w.accepted) {
              bad("torn_write", "to_writer", format!("after Ok(0) at byte {} the sink holds {:?}", k, String::from_utf8_lossy(&w.accepted)));
            }
          }
          Err(_) => bad("panic", "to_writer", format!("to_writer panicked on a full sink at byte {}: {}", k, sched::take_last_panic().unwrap_or_default())),
        }
      }
      (j, spec.clone(), true)
    }
    Doc::Raw { text, expect } => (text.clone(), expect.clone(), false),
  };

  // three parsers, fault-free / fragmentation only
  let r1 = guard(&mut || match SourceMap::from_json(&j) {
    Ok(m) => same_fields(&m, &expect, own).map(|d| ("roundtrip".into(), "from_json".into(), d)),
    Err(e) => Some(("parse_failed".into(), "from_json".into(), format!("from_json rejects {:?}: {}", j, e))),
  });
  let r2 = guard(&mut || match SourceMap::from_slice(j.as_bytes()) {
    Ok(m) => same_fields(&m, &expect, own).map(|d| ("roundtrip".into(), "from_slice".into(), d)),
    Err(e) => Some(("parse_failed".into(), "from_slice".into(), format!("from_slice rejects {:?}: {}", j, e))),
  });
  let mut rstats = Default::default();
  let r3 = guard(&mut || {
    let mut rd = SimReader::new(
      j.as_bytes(),
      ReaderPlan {
        fail_at: None,
        truncate_at: None,
        ..case.reader.clone()
      },
    );
    let r = SourceMap::from_reader(&mut rd);
    rstats = rd.stats.clone();
    match r {
      Ok(m) => same_fields(&m, &expect, own).map(|d| ("roundtrip".into(), "from_reader".into(), d)),
      Err(e) => Some((
        "parse_failed".into(),
        "from_reader".into(),
        format!("from_reader (short reads / EINTR only) rejects {:?}: {}", j, e),
      )),
    }
  });
  counters.add("fault:short_read_fired", rstats.short_writes);
  counters.add("fault:eintr_read_fired", rstats.eintr);
  for r in [r1, r2, r3].into_iter().flatten() {
    bad(&r.0, &r.1, r.2);
  }

  // a near-twin document parsed while the first result is still alive: the
  // same strings cut at other entry boundaries (or an empty entry moved by one
  // slot) must give the twin's tables, not the first document's
  if let Some(twin) = near_twin(&expect) {
    let first = SourceMap::from_json(&j).ok();
    let tj = twin_document(&twin);
    let r = guard(&mut || match SourceMap::from_json(&tj) {
      Ok(m) => same_fields(&m, &twin, false).map(|d| {
        (
          "roundtrip".into(),
          "from_json".into(),
          format!("a second document {:?}, parsed while the result of the first one was alive: {}", tj, d),
        )
      }),
      Err(e) => Some(("parse_failed".into(), "from_json".into(), format!("from_json rejects the twin document {:?}: {}", tj, e))),
    });
    counters.inc("probe:near_twin_document_parsed_while_first_alive");
    if let Some(r) = r {
      bad(&r.0, &r.1, r.2);
    }
    // and the first value is still what it was
    if let Some(m) = &first {
      if let Some(d) = same_fields(m, &expect, own) {
        bad("roundtrip", "from_json", format!("after parsing a near-twin document the first value changed: {}", d));
      }
    }
    drop(first);
  }

  // crash-truncation and hard read errors
  let ks: Vec<u64> = fault_offsets(case, j.len() as u64);
  for k in ks.iter().copied().filter(|k| *k < j.len() as u64) {
    for mode in 0..2 {
      let plan = if mode == 0 {
        ReaderPlan {
          truncate_at: Some(k),
          fail_at: None,
          ..case.reader.clone()
        }
      } else {
        ReaderPlan {
          truncate_at: None,
          fail_at: Some(k),
          ..case.reader.clone()
        }
      };
      let r = guard(&mut || {
        let mut rd = SimReader::new(j.as_bytes(), plan.clone());
        match SourceMap::from_reader(&mut rd) {
          Ok(_) => Some((
            if mode == 0 { "truncated_accepted".into() } else { "read_error_swallowed".into() },
            "from_reader".into(),
            if mode == 0 {
              format!("only the first {} of {} bytes survived the crash, yet from_reader returned Ok", k, j.len())
            } else {
              format!("the reader failed after {} bytes, yet from_reader returned Ok", k)
            },
          )),
          Err(_) => None,
        }
      });
      counters.inc(if mode == 0 { "fault:crash_truncation_fired" } else { "fault:hard_read_error_fired" });
      if let Some(r) = r {
        bad(&r.0, &r.1, r.2);
      }
    }
    // the crash-truncated file handed to the two in-memory entry points
    let cut = &j.as_bytes()[..k as usize];
    let r = guard(&mut || match SourceMap::from_slice(cut) {
      Ok(_) => Some((
        "truncated_accepted".into(),
        "from_slice".into(),
        format!("only the first {} of {} bytes survived the crash, yet from_slice returned Ok", k, j.len()),
      )),
      Err(_) => None,
    });
    counters.inc("fault:crash_truncation_fired");
    if let Some(r) = r {
      bad(&r.0, &r.1, r.2);
    }
    if let Ok(cut_str) = std::str::from_utf8(cut) {
      let r = guard(&mut || match SourceMap::from_json(cut_str) {
        Ok(_) => Some((
          "truncated_accepted".into(),
          "from_json".into(),
          format!("only the first {} of {} bytes survived the crash, yet from_json returned Ok", k, j.len()),
        )),
        Err(_) => None,
      });
      if let Some(r) = r {
        bad(&r.0, &r.1, r.2);
      }
    }
  }
  // after the faults: the intact document still parses to the same fields
  // through all three entry points (a rejected document must leave nothing behind)
  if !ks.is_empty() {
    let again = [
      guard(&mut || match SourceMap::from_json(&j) {
        Ok(m) => same_fields(&m, &expect, own).map(|d| ("roundtrip".into(), "from_json".into(), d)),
        Err(e) => Some(("parse_failed_after_fault".into(), "from_json".into(), format!("after rejecting truncated input, from_json rejects the intact document: {}", e))),
      }),
      guard(&mut || match SourceMap::from_slice(j.as_bytes()) {
        Ok(m) => same_fields(&m, &expect, own).map(|d| ("roundtrip".into(), "from_slice".into(), d)),
        Err(e) => Some(("parse_failed_after_fault".into(), "from_slice".into(), format!("after rejecting truncated input, from_slice rejects the intact document: {}", e))),
      }),
      guard(&mut || match SourceMap::from_reader(j.as_bytes()) {
        Ok(m) => same_fields(&m, &expect, own).map(|d| ("roundtrip".into(), "from_reader".into(), d)),
        Err(e) => Some(("parse_failed_after_fault".into(), "from_reader".into(), format!("after rejecting truncated input, from_reader rejects the intact document: {}", e))),
      }),
    ];
    for r in again.into_iter().flatten() {
      bad(&r.0, &r.1, r.2);
    }
  }
  counters.inc(if own { "population:source_map_values" } else { "population:hand_written_documents" });
  (out, counters)
}

impl C15 {
  fn generate(&self, seed: u64, index: u64, thorough: bool) -> C15Case {
    let mut rng = Rng::new(run_seed(seed, str_hash("C15"), index));
    let doc = if rng.chance(650) { Doc::Value(gen_value(&mut rng)) } else { gen_raw(&mut rng) };
    let writer = WriterPlan {
      max_chunk: if rng.chance(800) { 1 + rng.below(9) as u32 } else { 0 },
      eintr_every: if rng.chance(500) { 1 + rng.below(4) as u32 } else { 0 },
      eintr_burst: 1 + rng.below(3) as u32,
      ..Default::default()
    };
    let reader = ReaderPlan {
      max_chunk: if rng.chance(800) { 1 + rng.below(7) as u32 } else { 0 },
      eintr_every: if rng.chance(500) { 2 + rng.below(4) as u32 } else { 0 },
      fail_at: None,
      truncate_at: None,
    };
    let edits: Vec<Edit> = if matches!(doc, Doc::Value(_)) && rng.chance(300) {
      (0..1 + rng.usize_below(3))
        .map(|_| match rng.below(6) {
          0 => Edit::File(if rng.chance(700) { Some(nasty_string(&mut rng, 4)) } else { None }),
          1 => Edit::Sources((0..rng.usize_below(3)).map(|_| nasty_string(&mut rng, 4)).collect()),
          2 => Edit::SourcesContent((0..rng.usize_below(3)).map(|_| nasty_string(&mut rng, 5)).collect()),
          3 => Edit::Names((0..rng.usize_below(3)).map(|_| nasty_string(&mut rng, 4)).collect()),
          4 => Edit::SourceRoot(if rng.chance(700) { Some(nasty_string(&mut rng, 4)) } else { None }),
          _ => Edit::DebugId(if rng.chance(800) { Some(nasty_string(&mut rng, 6)) } else { None }),
        })
        .collect()
    } else {
      vec![]
    };
    let all_offsets = thorough || rng.chance(100);
    let offsets = (0..6).map(|_| rng.below(1 << 20)).collect();
    C15Case {
      kind: "json".into(),
      doc,
      writer,
      reader,
      offsets,
      all_offsets,
      edits,
    }
  }

  fn report(&self, index: u64, case: &C15Case, res: (Vec<Violation>, Counters)) -> RunReport {
    let (violations, counters) = res;
    let case_hash = str_hash(&serde_json::to_string(&case.doc).unwrap_or_default());
    let mut oh = case_hash;
    for v in &violations {
      oh = splitmix64(oh ^ str_hash(&v.kind) ^ str_hash(&v.detail));
    }
    let nontrivial = match &case.doc {
      Doc::Value(s) => !s.sources.is_empty() || !s.names.is_empty() || s.file.is_some(),
      Doc::Raw { .. } => true,
    };
    RunReport {
      index,
      violations,
      counters,
      log_hash: case_hash,
      case_hash,
      nontrivial,
      skipped: false,
      case: serde_json::to_value(case).unwrap(),
      outcome_hash: oh,
      site_pairs: Default::default(),
    }
  }
}

pub struct C15Prop {
  pub thorough: bool,
}

impl Property for C15Prop {
  fn id(&self) -> &'static str {
    "C15"
  }
  fn level(&self) -> &'static str {
    "exploration"
  }
  fn run_one(&self, seed: u64, index: u64) -> RunReport {
    let case = C15.generate(seed, index, self.thorough);
    let res = check_case(&case);
    C15.report(index, &case, res)
  }
  fn case_of(&self, seed: u64, index: u64) -> Value {
    serde_json::to_value(C15.generate(seed, index, self.thorough)).unwrap()
  }
  fn replay(&self, case: &Value, _keep_trace: bool) -> (RunReport, Vec<String>) {
    let c: C15Case = serde_json::from_value(case.clone()).unwrap_or_else(|e| {
      eprintln!("HARNESS-ERROR: replay case does not parse: {}", e);
      std::process::exit(2);
    });
    let res = check_case(&c);
    (C15.report(0, &c, res), vec![])
  }
  fn shrink(&self, case: &Value, kind: &str) -> (Value, Value) {
    let orig: C15Case = match serde_json::from_value(case.clone()) {
      Ok(c) => c,
      Err(_) => return (case.clone(), json!(null)),
    };
    let from = json!({"document_bytes": serde_json::to_string(&orig.doc).map(|s| s.len()).unwrap_or(0)});
    let mut cur = orig;
    let fails = |c: &C15Case| check_case(c).0.iter().any(|v| v.kind == kind);
    // simplify plans first
    for cand in [
      C15Case { writer: Default::default(), ..cur.clone() },
      C15Case { reader: Default::default(), ..cur.clone() },
      C15Case { offsets: vec![], all_offsets: false, ..cur.clone() },
    ] {
      if fails(&cand) {
        cur = cand;
      }
    }
    // drop setter edits one by one
    let mut i = 0;
    while i < cur.edits.len() {
      let mut c = cur.clone();
      c.edits.remove(i);
      if fails(&c) {
        cur = c;
      } else {
        i += 1;
      }
    }
    // then the value: drop / shorten strings
    if let Doc::Value(spec) = cur.doc.clone() {
      let mut s = spec;
      let mut progress = true;
      while progress {
        progress = false;
        let mut cands: Vec<MapSpec> = vec![];
        for f in 0..3 {
          let mut c = s.clone();
          match f {
            0 => c.file = None,
            1 => c.source_root = None,
            _ => c.debug_id = None,
          }
          cands.push(c);
        }
        for which in 0..3 {
          let len = [s.sources.len(), s.sources_content.len(), s.names.len()][which];
          if len > 16 {
            // long tables: drop one half at a time
            for (lo, hi) in [(len / 2, len), (0, len / 2), (len - 1, len)] {
              let mut c = s.clone();
              match which {
                0 => drop(c.sources.drain(lo..hi)),
                1 => drop(c.sources_content.drain(lo..hi)),
                _ => drop(c.names.drain(lo..hi)),
              }
              cands.push(c);
            }
            continue;
          }
          for i in 0..len {
            let mut c = s.clone();
            match which {
              0 => {
                c.sources.remove(i);
              }
              1 => {
                c.sources_content.remove(i);
              }
              _ => {
                c.names.remove(i);
              }
            }
            cands.push(c);
            let mut c = s.clone();
            let v = match which {
              0 => &mut c.sources[i],
              1 => &mut c.sources_content[i],
              _ => &mut c.names[i],
            };
            if v.chars().count() > 1 {
              let first: String = v.chars().take(v.chars().count() / 2).collect();
              *v = first;
              cands.push(c);
            }
          }
        }
        for c in cands {
          if c == s {
            continue;
          }
          let cand = C15Case { doc: Doc::Value(c.clone()), ..cur.clone() };
          if fails(&cand) {
            s = c;
            cur = cand;
            progress = true;
            break;
          }
        }
      }
    }
    (serde_json::to_value(&cur).unwrap(), from)
  }
  fn rule(&self) -> String {
    "case = (document, writer plan, reader plan, fault offsets) from splitmix(VERIF_SEED, run index). 65% SourceMap values (30% of them with a setter history: the value, a clone and its Debug form are serialised once, then 1-3 setters are applied and the pipeline runs on the edited value) with strings over quotes, backslashes, C0 controls, DEL, U+2028/2029, BOM, 2-4-byte characters, optional fields present/absent, all-empty vs partly empty sourcesContent, a mappings member that is arbitrary text instead of VLQ in 25% of the values, tables of 31 .. 1028 entries (count next to a power of two) in 1% and of 65 535 .. 65 538 entries in 0.05% of the values; 35% hand-serialised documents with null entries, null tables, missing arrays, shuffled and unknown keys, whitespace. Pipeline: to_json -> independent serde_json check; to_writer through a fragmenting/EINTR writer -> file F must equal to_json byte for byte; from_json, from_slice, from_reader(fragmenting reader) must give the same fields; a near-twin document (the same strings cut at other entry boundaries) parsed while the first result is alive must give its own tables; hard write error at k -> Err and F is the k-byte prefix; crash-truncation at k and hard read error at k -> Err, never Ok, never panic (k sampled in quick, every k in 10% of runs and in thorough; 1.5% of the values carry an 8-140 KiB sourcesContent entry, for which the offsets around 8 KiB / 64 KiB / 128 KiB boundaries are added). distinct_nontrivial = distinct documents with at least one non-default field.".into()
  }
  fn assumptions(&self) -> Vec<String> {
    vec![
      "serde_json is the independent JSON parser (shares no parsing code with simd-json)".into(),
      "the value-space clauses (escaping) are input-quantified; the simulator contributes the I/O clauses (fragmentation, failing and truncated storage)".into(),
      "a proper prefix of a JSON object is never a complete document, so truncation must be rejected".into(),
    ]
  }
  fn real_vs_stub(&self) -> Value {
    json!({
      "real": ["SourceMap::{to_json,to_writer,from_json,from_slice,from_reader}", "simd-json"],
      "simulated": ["the disk: writer with short writes / EINTR / hard error at byte k; the file between writer and reader (crash-truncation at k); reader with short reads / EINTR / hard error at byte k"],
    })
  }
}
