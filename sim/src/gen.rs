//! Seeded generators for texts, maps, trees and replacement calls.
//! Size-biased small; every choice comes from the run's PRNG.

use crate::{
  model::{content, encode_mappings, line_lengths, Seg},
  rng::Rng,
  spec::{ConcatHow, Enforce, InnerMapSpec, MapSpec, ReplCall, TreeSpec},
};

const ASCII_ALPHA: &[&str] = &[
  "a", "b", "c", "x", "y", "0", "1", " ", " ", "\n", "\n", "\n", ";", ";", "{", "}", "=", "(",
  ")", ",", "\t", "\r\n", "foo", "let ", "\n\n", "\r", "\t\n",
];
const UTF8_EXTRA: &[&str] = &["é", "ß", "中", "文", "😀", "\u{2028}", "\u{2029}", "\u{feff}", "ñ\n", "\u{7f}"];
pub const FILE_NAMES: &[&str] = &["a.js", "b.js", "a.js", "x/y.ts", "webpack://m/c.js", "a.js", "b.js", ""];
const IDENTS: &[&str] = &["foo", "bar", "x", "n0"];

#[derive(Clone, Debug)]
pub struct GenCfg {
  pub ascii: bool,
  pub max_depth: u32,
  pub max_nodes: u32,
  pub allow_cached: bool,
  pub allow_user: bool,
  /// user sources whose `size()` is an overestimate (never for C07, whose
  /// clauses tie size() to buffer())
  pub allow_estimate: bool,
  pub allow_binary: bool,
  pub allow_inner_map: bool,
  pub max_text: usize,
  pub max_calls: usize,
}

impl GenCfg {
  pub fn small(ascii: bool) -> GenCfg {
    GenCfg {
      ascii,
      max_depth: 3,
      max_nodes: 7,
      allow_cached: true,
      allow_user: true,
      allow_estimate: false,
      allow_binary: !ascii,
      allow_inner_map: true,
      max_text: 24,
      max_calls: 4,
    }
  }
}

pub struct Ids {
  pub next_cache: u32,
  pub next_user: u32,
}

impl Ids {
  pub fn new() -> Ids {
    Ids {
      next_cache: 1,
      next_user: 1,
    }
  }
  pub fn cache(&mut self) -> u32 {
    self.next_cache += 1;
    self.next_cache - 1
  }
  pub fn user(&mut self) -> u32 {
    self.next_user += 1;
    self.next_user - 1
  }
}

pub fn gen_text(rng: &mut Rng, max_len: usize, ascii: bool) -> String {
  let target = match rng.below(10) {
    0 => 0,
    1 | 2 => rng.usize_below(4),
    _ => rng.usize_below(max_len + 1),
  };
  let mut s = String::new();
  // swarm mode "long token" (4 in 1000 leaf-sized texts): the text starts with
  // one unbroken token whose length sits on a VLQ digit boundary (a delta of
  // 16 / 512 / 16384 needs one more base64 digit than the value below it), so
  // that the next chunk starts exactly there
  if max_len >= 24 && !cfg!(miri) && rng.chance(4) {
    let b = *rng.pick(&[512usize, 512, 512, 512, 512, 16384]);
    let n = match rng.below(4) {
      0 => b - 1,
      1 => b + 1,
      _ => b,
    };
    s.extend(std::iter::repeat('x').take(n));
    s.push_str(*rng.pick(&[";", " ", "\n", "=", ""]));
    let rest = rng.usize_below(max_len + 1);
    let stop = s.len() + rest;
    while s.len() < stop {
      s.push_str(*rng.pick(ASCII_ALPHA));
    }
    return s;
  }
  // swarm mode "many lines" (2 in 1000 leaf-sized texts): a line count next to
  // a power of two (31 .. 516 lines: 8-bit line numbers, small line tables;
  // more lines cost the position-wise oracles quadratic time and the
  // scheduler its step budget, one decision per chunk callback)
  if max_len >= 24 && !cfg!(miri) && rng.chance(2) {
    let n = magic_count(rng, 9);
    let unit = *rng.pick(&["x\n", ";\n", "\n", "ab;\n", "a\r\n"]);
    for i in 0..n {
      if i % 97 == 13 {
        s.push_str("let y = 1;");
      }
      s.push_str(unit);
    }
    if rng.chance(500) {
      s.push_str("end");
    }
    return s;
  }
  while s.len() < target {
    let piece = if !ascii && rng.chance(250) {
      *rng.pick(UTF8_EXTRA)
    } else {
      *rng.pick(ASCII_ALPHA)
    };
    s.push_str(piece);
  }
  s
}

pub fn gen_bytes(rng: &mut Rng, max_len: usize) -> Vec<u8> {
  let mut b = gen_text(rng, max_len, false).into_bytes();
  // sprinkle invalid UTF-8
  let n = rng.usize_below(3);
  for _ in 0..n {
    let bad: &[u8] = match rng.below(5) {
      0 => &[0xff],
      1 => &[0xc3],          // truncated 2-byte sequence
      2 => &[0xe4, 0xb8],    // truncated 3-byte sequence
      3 => &[0x80],          // lone continuation
      _ => &[0xf0, 0x9f, 0x98], // truncated 4-byte sequence
    };
    let at = rng.usize_below(b.len() + 1);
    for (k, x) in bad.iter().enumerate() {
      b.insert(at + k, *x);
    }
  }
  b
}

/// A count next to a power of two (2^k - 1 ..= 2^k + 4) for `5 <= k <= max_k`,
/// smaller powers far more likely: the sizes at which small inline tables,
/// narrow index types and chunked loops change behaviour.
pub fn magic_count(rng: &mut Rng, max_k: u32) -> usize {
  let mut k = 5;
  while k < max_k && rng.chance(450) {
    k += 1;
  }
  // 8-bit and 16-bit limits get extra weight
  if max_k >= 8 && rng.chance(250) {
    k = 8;
  }
  if max_k >= 16 && rng.chance(60) {
    k = 16;
  }
  (1usize << k) - 1 + rng.usize_below(6)
}

/// A tame, in-range source map for `text`.
pub fn gen_map_for(rng: &mut Rng, text: &str, own_name: Option<&str>) -> MapSpec {
  // swarm mode "many entries" (3 in 1000 maps): more sources / names than fit
  // an 8-bit index or a small inline table
  let many_sources = !cfg!(miri) && rng.chance(3);
  let many_names = !cfg!(miri) && rng.chance(3);
  let nsrc = if many_sources { magic_count(rng, 9) } else { 1 + rng.usize_below(3) };
  let mut sources: Vec<String> = if many_sources {
    (0..nsrc).map(|i| format!("s{}.js", i)).collect()
  } else {
    (0..nsrc).map(|_| rng.pick(FILE_NAMES).to_string()).collect()
  };
  if let Some(n) = own_name {
    if rng.chance(500) {
      sources[0] = n.to_string();
    }
  }
  let nnames = if many_names { magic_count(rng, 9) } else { rng.usize_below(4) };
  let names: Vec<String> = (0..nnames)
    .map(|i| {
      if many_names {
        format!("n{}", i)
      } else if rng.chance(60) {
        String::new()
      } else {
        rng.pick(IDENTS).to_string()
      }
    })
    .collect();
  let sources_content: Vec<String> = match rng.below(4) {
    0 => vec![],
    _ if many_sources => (0..nsrc).map(|i| if i % 7 == 3 { String::new() } else { format!("c{}", i) }).collect(),
    1 => (0..nsrc).map(|i| if i == 0 { String::new() } else { gen_text(rng, 16, true) }).collect(),
    _ => (0..nsrc).map(|_| gen_text(rng, 20, true)).collect(),
  };
  let mut segs = vec![];
  for (li, len) in line_lengths(text).iter().enumerate() {
    let k = match rng.below(6) {
      0 => 0,
      1 | 2 => 1,
      3 | 4 => 2,
      _ => 3,
    };
    let mut cols: Vec<u32> = (0..k).map(|_| rng.below(*len as u64) as u32).collect();
    if rng.chance(600) && k > 0 {
      cols[0] = 0;
    }
    // two segments exactly a VLQ digit boundary apart, when the line is long enough
    for b in [16u32, 512, 16384] {
      if *len > b + 1 && rng.chance(if b == 16 { 100 } else { 500 }) {
        let c = rng.below((*len - b) as u64) as u32;
        cols.push(if rng.chance(500) { 0 } else { c });
        let first = *cols.last().unwrap();
        cols.push(first + b - 1 + rng.below(3) as u32);
      }
    }
    cols.retain(|c| *c < *len);
    cols.sort_unstable();
    cols.dedup();
    for col in cols {
      let orig = if rng.chance(120) {
        None
      } else {
        let name = if nnames > 0 && rng.chance(350) {
          Some(rng.below(nnames as u64) as u32)
        } else {
          None
        };
        // 4 in 1000 segments are "wild": an original line / column near
        // 2^29 (seven VLQ digits)
        let wild = rng.chance(4);
        // (kept below 2^30 so that every delta fits a signed 32-bit VLQ value)
        let big = |rng: &mut Rng| (1u32 << 29) - 1 + rng.below(3) as u32 + if rng.chance(300) { 1 << 28 } else { 0 };
        Some((
          rng.below(nsrc as u64) as u32,
          if wild && rng.chance(500) { big(rng) } else { 1 + rng.below(4) as u32 },
          if wild { big(rng) } else { rng.below(12) as u32 },
          name,
        ))
      };
      // 15 in 1000 segments: the original line or column lies exactly a VLQ
      // digit boundary (16 / 512 / 16384, give or take one) away from the
      // previous mapped segment's, in either direction
      let orig = match (orig, segs.iter().rev().find_map(|s: &Seg| s.orig)) {
        (Some((s0, l0, c0, n0)), prev) if rng.chance(15) => {
          let d = *rng.pick(&[16i64, 16, 512, 512, 512, 16384]) - 1 + rng.below(3) as i64;
          let d = if rng.chance(350) { -d } else { d };
          let (pl, pc) = prev.map_or((1i64, 0i64), |(_, l, c, _)| (l as i64, c as i64));
          if rng.chance(700) {
            let c = pc + d;
            Some((s0, l0, if c >= 0 { c as u32 } else { (pc - d) as u32 }, n0))
          } else {
            let l = pl + d;
            Some((s0, if l >= 1 { l as u32 } else { (pl - d) as u32 }, c0, n0))
          }
        }
        (o, _) => o,
      };
      // sometimes repeat the previous segment's original position with the
      // name toggled (named -> unnamed and back): the encoder's "same
      // original mapping" shortcut has to look at the name too
      let orig = match (orig, segs.last()) {
        (Some((_, _, _, n)), Some(Seg { orig: Some((ps, pl, pc, pn)), line, .. })) if *line == li as u32 + 1 && rng.chance(150) => {
          let toggled = if pn.is_some() { None } else if nnames > 0 { Some(0) } else { n };
          Some((*ps, *pl, *pc, toggled))
        }
        (o, _) => o,
      };
      segs.push(Seg {
        line: li as u32 + 1,
        col,
        orig,
      });
    }
  }
  let mut mappings = encode_mappings(&segs);
  // 5 in 1000 maps: noise inside the mappings string (characters outside the
  // base64 alphabet, mostly non-ASCII); it decodes to the same segments
  if rng.chance(5) && !mappings.is_empty() {
    for _ in 0..1 + rng.usize_below(3) {
      let noise = *rng.pick(&["\u{80}", "\u{2028}", "\u{feff}", "é", "😀", "\u{ff}", " ", "!", "\n", "\u{7f}"]);
      let mut at = rng.usize_below(mappings.len() + 1);
      while !mappings.is_char_boundary(at) {
        at -= 1;
      }
      mappings.insert_str(at, noise);
    }
  }
  MapSpec {
    mappings,
    sources,
    sources_content,
    names,
    file: if rng.chance(200) { Some("out.js".into()) } else { None },
    // sourceRoot is applied to the announced source names while streaming
    source_root: match rng.below(12) {
      0 => Some("root".into()),
      1 => Some("webpack:///".into()),
      2 => Some(String::new()),
      _ => None,
    },
    debug_id: if rng.chance(80) { Some("DBG-1".into()) } else { None },
  }
}

pub fn gen_leaf(rng: &mut Rng, cfg: &GenCfg) -> TreeSpec {
  let text = gen_text(rng, cfg.max_text, cfg.ascii);
  let roll = rng.below(100);
  if cfg.allow_binary && roll < 20 {
    let bytes = gen_bytes(rng, cfg.max_text);
    return if rng.chance(500) {
      TreeSpec::RawBytes { bytes }
    } else {
      TreeSpec::RawBuffer { bytes }
    };
  }
  match roll {
    0..=34 => TreeSpec::Raw { text },
    35..=44 => TreeSpec::RawString { text },
    45..=74 => TreeSpec::Original {
      text,
      name: rng.pick(FILE_NAMES).to_string(),
    },
    _ => {
      let name = rng.pick(FILE_NAMES).to_string();
      let map = gen_map_for(rng, &text, None);
      if cfg.allow_inner_map && rng.chance(80) {
        return gen_aligned_combined(rng, cfg, text, name);
      }
      let inner = if cfg.allow_inner_map && rng.chance(150) {
        let orig = gen_text(rng, 20, cfg.ascii);
        let inner_map = gen_map_for(rng, &orig, None);
        Some(InnerMapSpec {
          original_source: if rng.chance(700) { Some(orig) } else { None },
          inner_map: Some(inner_map),
          remove_original_source: rng.chance(300),
        })
      } else if rng.chance(120) {
        // the full options constructor without an inner map
        Some(InnerMapSpec {
          original_source: if rng.chance(600) { Some(gen_text(rng, 12, cfg.ascii)) } else { None },
          inner_map: None,
          remove_original_source: rng.chance(400),
        })
      } else {
        None
      };
      // make the outer map mention `name` so the inner map applies
      let mut map = map;
      if inner.as_ref().is_some_and(|i| i.inner_map.is_some()) && !map.sources.is_empty() {
        map.sources[0] = name.clone();
      }
      TreeSpec::SourceMap {
        text,
        name,
        map,
        inner,
      }
    }
  }
}

/// A SourceMapSource whose outer map points *into* the chunks of its inner
/// map: the outer map's only source is the node's own name, its original
/// positions lie on (or strictly inside) the inner map's segments of the
/// original source, and the inner map's source carries content — the shape
/// that makes the combined-source-map streaming look up, cut and compare
/// inner chunks (helpers.rs), with multi-byte text on every level when the
/// run is not ASCII-only.
pub fn gen_aligned_combined(rng: &mut Rng, cfg: &GenCfg, text: String, name: String) -> TreeSpec {
  let ascii = cfg.ascii;
  let mut nonempty = |rng: &mut Rng, max: usize| {
    let mut t = gen_text(rng, max, ascii);
    if t.is_empty() {
      t = if ascii { "ab;\ncd".to_string() } else { "世界abc;\né=1".to_string() };
    }
    t
  };
  let original = nonempty(rng, 18);
  let innermost = nonempty(rng, 18);
  let orig_lines = line_lengths(&original);
  let inner_lines = line_lengths(&innermost);
  let char_len = |t: &str, line: usize| t.split_inclusive('\n').nth(line).map_or(0, |l| l.chars().count() as u32);
  // inner map: original -> innermost
  let mut segs = vec![];
  for li in 0..orig_lines.len() {
    let n = 1 + rng.usize_below(3);
    let width = char_len(&original, li).max(1);
    let mut cols: Vec<u32> = (0..n).map(|_| rng.below(width as u64) as u32).collect();
    if rng.chance(700) {
      cols[0] = 0;
    }
    cols.sort_unstable();
    cols.dedup();
    for col in cols {
      let ol = rng.usize_below(inner_lines.len());
      segs.push(Seg {
        line: li as u32 + 1,
        col,
        orig: Some((0, ol as u32 + 1, rng.below(char_len(&innermost, ol).max(1) as u64 + 1) as u32, None)),
      });
    }
  }
  let inner_map = MapSpec {
    mappings: encode_mappings(&segs),
    sources: vec!["in.js".to_string()],
    sources_content: if rng.chance(850) { vec![innermost] } else { vec![] },
    names: vec![],
    file: None,
    source_root: None,
    debug_id: None,
  };
  // outer map: generated text -> original (positions on or inside inner segments)
  let mut outer = vec![];
  for (li, len) in line_lengths(&text).iter().enumerate() {
    let n = rng.usize_below(4);
    let mut cols: Vec<u32> = (0..n).map(|_| rng.below((*len).max(1) as u64) as u32).collect();
    cols.sort_unstable();
    cols.dedup();
    for col in cols {
      let ol = rng.usize_below(orig_lines.len());
      // columns up to the line's *byte* length: covers char, UTF-16 and byte readings
      let oc = rng.below(orig_lines[ol] as u64 + 1) as u32;
      outer.push(Seg {
        line: li as u32 + 1,
        col,
        orig: Some((0, ol as u32 + 1, oc, if rng.chance(300) { Some(0) } else { None })),
      });
    }
  }
  let map = MapSpec {
    mappings: encode_mappings(&outer),
    sources: vec![name.clone()],
    sources_content: if rng.chance(500) { vec![original.clone()] } else { vec![] },
    names: vec!["nm".to_string()],
    file: None,
    source_root: None,
    debug_id: None,
  };
  TreeSpec::SourceMap {
    text,
    name,
    map,
    inner: Some(InnerMapSpec {
      original_source: if rng.chance(800) { Some(original) } else { None },
      inner_map: Some(inner_map),
      remove_original_source: rng.chance(300),
    }),
  }
}

/// Positions that are legal replacement bounds for `text`: char boundaries
/// plus a few positions beyond the end.
pub fn legal_positions(text: &str) -> Vec<u32> {
  let mut v: Vec<u32> = text.char_indices().map(|(i, _)| i as u32).collect();
  v.push(text.len() as u32);
  v
}

pub fn gen_call(rng: &mut Rng, text: &str, ascii: bool, prev: &[ReplCall]) -> ReplCall {
  let bounds = legal_positions(text);
  let len = text.len() as u32;
  let beyond = [len + 1, len + 7, 4_000_000_000];
  let pick_pos = |rng: &mut Rng| -> u32 {
    if rng.chance(80) {
      *rng.pick(&beyond)
    } else {
      *rng.pick(&bounds)
    }
  };
  // deliberately collide with an earlier key sometimes
  let (start, end) = if !prev.is_empty() && rng.chance(300) {
    let p = rng.pick(prev);
    (p.start, p.end)
  } else {
    let a = pick_pos(rng);
    let b = if rng.chance(350) { a } else { pick_pos(rng) };
    (a.min(b), a.max(b))
  };
  let content = match rng.below(6) {
    0 => String::new(),
    1 => "\n".to_string(),
    _ => gen_text(rng, 6, ascii),
  };
  let enforce = match rng.below(5) {
    0 => Some(Enforce::Pre),
    1 => Some(Enforce::Post),
    2 => Some(Enforce::Normal),
    _ => None,
  };
  ReplCall {
    start,
    end,
    content,
    name: if rng.chance(250) { Some(rng.pick(IDENTS).to_string()) } else { None },
    enforce,
    via_insert: rng.chance(500),
  }
}

pub fn gen_calls(rng: &mut Rng, text: &str, max: usize, ascii: bool) -> Vec<ReplCall> {
  let n = rng.usize_below(max + 1);
  let mut calls = vec![];
  for _ in 0..n {
    let c = gen_call(rng, text, ascii, &calls);
    calls.push(c);
  }
  calls
}

/// 30 % of ReplaceSources with two or more calls get a pre-history: observed
/// once (sorted) after some of the calls, then edited further.
pub fn pre_history(rng: &mut Rng, n_calls: usize) -> Option<u32> {
  if n_calls >= 2 && rng.chance(300) {
    Some(1 + rng.below(n_calls as u64 - 1) as u32)
  } else {
    None
  }
}

pub fn gen_tree(rng: &mut Rng, cfg: &GenCfg, ids: &mut Ids, depth: u32, budget: &mut u32) -> TreeSpec {
  if *budget > 0 {
    *budget -= 1;
  }
  if depth == 0 || *budget == 0 || rng.chance(300) {
    return gen_leaf(rng, cfg);
  }
  // swarm mode "wide concat" (3 in 1000 composite nodes): one generated line
  // spread over many tiny newline-free children, the count next to a power of
  // two (31 .. 132: ropes of more pieces than a small inline table or a
  // linear-scan threshold), with a mapped child among them
  if !cfg!(miri) && rng.chance(3) {
    let n = magic_count(rng, 7);
    let mapped_at = rng.usize_below(n);
    let children: Vec<TreeSpec> = (0..n)
      .map(|i| {
        let text = if !cfg.ascii && i % 11 == 5 { "é".to_string() } else { std::char::from_digit((i % 36) as u32, 36).unwrap().to_string() };
        if i == mapped_at || i % 17 == 3 {
          TreeSpec::Original { text: format!("{}=", text), name: "a.js".into() }
        } else {
          TreeSpec::Raw { text }
        }
      })
      .collect();
    let wide = TreeSpec::Concat { children, how: if rng.chance(500) { ConcatHow::New } else { ConcatHow::AddLater } };
    return if cfg.allow_cached && rng.chance(600) {
      TreeSpec::Cached { inner: Box::new(wide), cache_id: ids.cache() }
    } else {
      wide
    };
  }
  let roll = rng.below(100);
  match roll {
    0..=34 => {
      let n = match rng.below(8) {
        0 => 0,
        1 => 1,
        2..=5 => 2,
        _ => 3,
      };
      let children: Vec<TreeSpec> = (0..n).map(|_| gen_tree(rng, cfg, ids, depth - 1, budget)).collect();
      let how = match rng.below(4) {
        0 => ConcatHow::New,
        1 => ConcatHow::AddLater,
        2 => ConcatHow::AddObserved,
        _ => match rng.below(4) {
          0 => ConcatHow::AddTyped,
          1 => ConcatHow::AddHeld,
          _ => ConcatHow::NestedTyped,
        },
      };
      TreeSpec::Concat { children, how }
    }
    35..=64 => {
      let inner = gen_tree(rng, cfg, ids, depth - 1, budget);
      let text = content(&inner).0;
      let calls = gen_calls(rng, &text, cfg.max_calls, cfg.ascii);
      let observe_at = pre_history(rng, calls.len());
      TreeSpec::Replace {
        inner: Box::new(inner),
        calls,
        observe_at,
      }
    }
    65..=84 if cfg.allow_cached => TreeSpec::Cached {
      inner: Box::new(gen_tree(rng, cfg, ids, depth - 1, budget)),
      cache_id: ids.cache(),
    },
    85..=94 if cfg.allow_user => TreeSpec::User {
      inner: Box::new(gen_tree(rng, cfg, ids, depth - 1, budget)),
      // 30 %: a user source that renumbers its sources / names
      id: ids.user()
        | if rng.chance(300) { crate::spec::PERMUTE_BIT } else { 0 }
        | if cfg.allow_estimate && rng.chance(150) { crate::spec::ESTIMATE_BIT } else { 0 },
    },
    95..=99 => TreeSpec::Boxed {
      inner: Box::new(gen_tree(rng, cfg, ids, depth - 1, budget)),
    },
    _ => gen_leaf(rng, cfg),
  }
}

/// Give every `Cached` node in `spec` a fresh cache id (a structural twin with
/// its own, cold caches even inside one builder).
pub fn fresh_cache_ids(spec: &TreeSpec, ids: &mut Ids, map: &mut std::collections::BTreeMap<u32, u32>) -> TreeSpec {
  match spec {
    TreeSpec::Concat { children, how } => TreeSpec::Concat {
      children: children.iter().map(|c| fresh_cache_ids(c, ids, map)).collect(),
      how: how.clone(),
    },
    TreeSpec::Replace { inner, calls, observe_at } => TreeSpec::Replace {
      inner: Box::new(fresh_cache_ids(inner, ids, map)),
      calls: calls.clone(),
      observe_at: *observe_at,
    },
    TreeSpec::Cached { inner, cache_id } => {
      let new_id = *map.entry(*cache_id).or_insert_with(|| ids.cache());
      TreeSpec::Cached {
        inner: Box::new(fresh_cache_ids(inner, ids, map)),
        cache_id: new_id,
      }
    }
    TreeSpec::User { inner, id } => TreeSpec::User {
      inner: Box::new(fresh_cache_ids(inner, ids, map)),
      id: *id,
    },
    TreeSpec::Boxed { inner } => TreeSpec::Boxed {
      inner: Box::new(fresh_cache_ids(inner, ids, map)),
    },
    leaf => leaf.clone(),
  }
}

/// True when every string anywhere in the spec (leaf texts, replacement
/// contents, map tables, original sources) is ASCII.
pub fn is_ascii_tree(spec: &TreeSpec) -> bool {
  fn map_ascii(m: &MapSpec) -> bool {
    m.sources.iter().all(|s| s.is_ascii())
      && m.sources_content.iter().all(|s| s.is_ascii())
      && m.names.iter().all(|s| s.is_ascii())
  }
  match spec {
    TreeSpec::Raw { text } | TreeSpec::RawString { text } => text.is_ascii(),
    TreeSpec::RawBytes { bytes } | TreeSpec::RawBuffer { bytes } => bytes.is_ascii(),
    TreeSpec::Original { text, name } => text.is_ascii() && name.is_ascii(),
    TreeSpec::SourceMap { text, name, map, inner } => {
      text.is_ascii()
        && name.is_ascii()
        && map_ascii(map)
        && inner.as_ref().map_or(true, |i| {
          i.inner_map.as_ref().map_or(true, map_ascii) && i.original_source.as_ref().map_or(true, |s| s.is_ascii())
        })
    }
    TreeSpec::Concat { children, .. } => children.iter().all(is_ascii_tree),
    TreeSpec::Replace { inner, calls, .. } => {
      is_ascii_tree(inner)
        && calls
          .iter()
          .all(|c| c.content.is_ascii() && c.name.as_ref().map_or(true, |n| n.is_ascii()))
    }
    TreeSpec::Cached { inner, .. } | TreeSpec::User { inner, .. } | TreeSpec::Boxed { inner } => {
      is_ascii_tree(inner)
    }
  }
}
