//! C05 — ReplaceSource text equals the reference replacement model, for every
//! history of mutate / observe phases. The sort order is a cache written by
//! readers through `&self`; observation phases run 1-3 simulated threads.

use serde::{Deserialize, Serialize};
use serde_json::{json, Value};

use crate::{
  conc::{gen_writer_plan, Counters, Violation, FATAL},
  driver::{Property, RunReport},
  exec::{Answer, Dyn},
  gen::{gen_call, gen_tree, GenCfg, Ids},
  model::{content, splice},
  props_c07::judge_written,
  props_conc::tree_shrinks,
  rng::{run_seed, splitmix64, str_hash, Rng},
  runner::{run_concurrent_on, Knobs, RunFlags},
  sched::{self, Abort},
  spec::{apply_call, Builder, Enforce, Op, OpKind, ReplCall, TreeSpec},
};

#[derive(Clone, Debug, Serialize, Deserialize, PartialEq)]
pub struct Phase {
  /// before the calls, continue with a clone of the value (`r = r.clone()`):
  /// the result must depend on the calls only, not on the clone in between
  #[serde(default)]
  pub fork: bool,
  /// a programmatic burst of mutating calls, applied before `calls`
  #[serde(default)]
  pub burst: Option<Burst>,
  /// mutating calls by the owner (exclusive access)
  pub calls: Vec<ReplCall>,
  /// observers: per simulated thread a list of ops on the shared value
  pub threads: Vec<Vec<OpKind>>,
}

/// `n` mutating calls with no observer in between, written as a rule instead
/// of a list (n goes up to 2^16 + 4): call i uses a key of `keys` chosen by
/// the burst's own PRNG and the content `<base36(i)>`.
#[derive(Clone, Debug, Serialize, Deserialize, PartialEq)]
pub struct Burst {
  pub n: u32,
  pub keys: Vec<(u32, u32)>,
  pub seed: u64,
  /// walk through `keys` in order (ascending positions) instead of drawing
  pub in_order: bool,
}

impl Burst {
  pub fn expand(&self, already: usize) -> Vec<ReplCall> {
    let mut rng = Rng::new(self.seed);
    (0..self.n as usize)
      .map(|i| {
        let (a, z) = if self.keys.is_empty() {
          (0, 0)
        } else if self.in_order {
          self.keys[i * self.keys.len() / self.n.max(1) as usize]
        } else {
          self.keys[rng.usize_below(self.keys.len())]
        };
        let mut n = already + i;
        let mut digits = vec![];
        loop {
          digits.push(std::char::from_digit((n % 36) as u32, 36).unwrap());
          n /= 36;
          if n == 0 {
            break;
          }
        }
        let content: String = std::iter::once('<').chain(digits.into_iter().rev()).chain(std::iter::once('>')).collect();
        ReplCall {
          start: a,
          end: z,
          content,
          name: None,
          enforce: if rng.chance(80) { Some(rng.pick(&[Enforce::Pre, Enforce::Normal, Enforce::Post]).clone()) } else { None },
          via_insert: rng.chance(300),
        }
      })
      .collect()
  }
}

/// Long texts are reported by their first difference, not in full.
fn diff_brief(got: &str, want: &str) -> String {
  if got.len() <= 300 && want.len() <= 300 {
    return format!("answered {:?}, the replacement model says {:?}", got, want);
  }
  let at = got.bytes().zip(want.bytes()).position(|(a, b)| a != b).unwrap_or(got.len().min(want.len()));
  let win = |s: &str| {
    let mut lo = at.saturating_sub(20);
    while !s.is_char_boundary(lo) {
      lo -= 1;
    }
    let mut hi = (at + 40).min(s.len());
    while !s.is_char_boundary(hi) {
      hi += 1;
    }
    s[lo.min(s.len())..hi].to_string()
  };
  format!(
    "answered {} bytes, the replacement model says {} bytes; first difference at byte {}: ...{:?}... vs model ...{:?}...",
    got.len(),
    want.len(),
    at,
    win(got),
    win(want)
  )
}

#[derive(Clone, Debug, Serialize, Deserialize)]
pub struct C05Case {
  pub kind: String, // "replace"
  pub inner: TreeSpec,
  pub phases: Vec<Phase>,
  pub knobs: Knobs,
  /// per phase: deviations from the default schedule (None = draw from knobs)
  pub schedules: Vec<Option<Vec<(u64, usize)>>>,
}

pub struct C05;

fn text_bearing(k: &OpKind) -> bool {
  match k {
    OpKind::Source | OpKind::Rope | OpKind::Buffer | OpKind::Size | OpKind::ToWriter { .. } => true,
    OpKind::CloneThen { then, .. } | OpKind::ChildFault { then, .. } => text_bearing(then),
    _ => false,
  }
}

fn gen_observer(rng: &mut Rng, text: &str, ascii: bool, prev: &[ReplCall]) -> OpKind {
  if rng.chance(60) {
    // clone, edit the clone, observe the clone: the original must not notice
    return OpKind::CloneEditObserve {
      call: gen_call(rng, text, ascii, prev),
      then: Box::new(if rng.chance(500) { OpKind::Source } else { OpKind::Hash }),
    };
  }
  if rng.chance(70) {
    // Debug rendering, also into a formatter sink that fails part-way
    return OpKind::DebugFmt {
      limit: if rng.chance(700) { Some(rng.below(500) as u32) } else { None },
    };
  }
  let base = |rng: &mut Rng| match rng.below(12) {
    0..=2 => OpKind::Source,
    3 => OpKind::Rope,
    4 => OpKind::Buffer,
    5 => OpKind::Size,
    6 => OpKind::ToWriter {
      plan: gen_writer_plan(rng),
    },
    7 | 8 => OpKind::Map {
      columns: rng.chance(600),
    },
    9 => OpKind::Hash,
    _ => OpKind::Stream {
      columns: rng.chance(600),
      abort_at: if rng.chance(150) { Some(rng.below(3) as u32) } else { None },
    },
  };
  if rng.chance(180) {
    let then = base(rng);
    let then = match then {
      OpKind::ToWriter { .. } => OpKind::Source,
      other => other,
    };
    OpKind::CloneThen {
      then: Box::new(then),
      orphan: None,
    }
  } else {
    base(rng)
  }
}

pub struct C05Result {
  pub violations: Vec<Violation>,
  pub counters: Counters,
  pub log_hash: u64,
  pub schedules: Vec<Option<Vec<(u64, usize)>>>,
  pub switches: u64,
  pub trace: Vec<String>,
  pub site_pairs: std::collections::BTreeSet<(String, String)>,
}

pub fn check_case(case: &C05Case, keep_trace: bool) -> C05Result {
  sched::set_quiet(true);
  sched::set_shards(Some(case.knobs.shards));
  let mut counters = Counters::default();
  let mut violations = vec![];
  let inner_text = content(&case.inner).0;
  let mut b = Builder::new();
  let mut r = b.build_replace_owner(&case.inner, &[]);
  let mut all_calls: Vec<ReplCall> = vec![];
  let mut log_hash = 0x5eed_u64;
  let mut schedules = vec![];
  let mut switches = 0;
  let mut trace = vec![];
  let mut site_pairs = std::collections::BTreeSet::new();
  let flags = RunFlags {
    keep_trace,
    consume: false,
    fatal_events: FATAL,
    do_tail: false,
  };

  for (pi, phase) in case.phases.iter().enumerate() {
    if phase.fork {
      counters.inc("probe:continued_on_a_clone");
      let c = r.clone();
      r = c;
    }
    if let Some(burst) = &phase.burst {
      counters.inc("probe:burst_of_calls");
      if burst.n >= 255 {
        counters.inc("probe:burst_beyond_8_bit_count");
      }
      let calls = burst.expand(all_calls.len());
      for c in &calls {
        apply_call(&mut r, c);
      }
      all_calls.extend(calls);
      if all_calls.len() > 65_536 {
        counters.inc("probe:more_than_2^16_replacements");
      }
      if pi > 0 {
        counters.inc("probe:mutation_after_observation");
      }
    }
    for c in &phase.calls {
      // probes (quadratic: skipped once a burst made the history long)
      if all_calls.len() > 2000 {
        apply_call(&mut r, c);
        all_calls.push(c.clone());
        continue;
      }
      if all_calls.iter().any(|p| p.start == c.start && p.end == c.end) {
        counters.inc("probe:equal_key_collision");
        if all_calls
          .iter()
          .any(|p| p.start == c.start && p.end == c.end && p.enforce_rank() != c.enforce_rank())
        {
          counters.inc("probe:enforce_tiebreak");
        }
      }
      if c.end as usize > inner_text.len() {
        counters.inc("probe:clamped");
      }
      if all_calls.iter().any(|p| c.start < p.end && p.start < c.end && (p.start, p.end) != (c.start, c.end)) {
        counters.inc("probe:overlap_or_nesting");
      }
      apply_call(&mut r, c);
      all_calls.push(c.clone());
    }
    if pi > 0 && !phase.calls.is_empty() {
      counters.inc("probe:mutation_after_observation");
    }
    let expected = if all_calls.is_empty() {
      inner_text.clone()
    } else {
      splice(&inner_text, &all_calls)
    };
    let threads: Vec<Vec<Op>> = phase
      .threads
      .iter()
      .map(|t| t.iter().map(|k| Op { obj: 0, kind: k.clone() }).collect())
      .collect();
    if threads.is_empty() {
      schedules.push(None);
      continue;
    }
    let mut knobs = case.knobs.clone();
    knobs.sched_seed = splitmix64(case.knobs.sched_seed ^ (pi as u64 + 1));
    if all_calls.len() > 2000 {
      // after a long burst a stream has tens of thousands of chunks: consumer
      // callbacks are not scheduling points then (they would exhaust the step
      // budget of a run in which every thread makes progress)
      knobs.cb_points = false;
    }
    let objs: [&Dyn; 1] = [&r];
    let replay = case.schedules.get(pi).cloned().flatten();
    let out = run_concurrent_on(&objs, &threads, &knobs, replay, &flags);
    log_hash = splitmix64(log_hash ^ out.stats.log_hash);
    schedules.push(Some(out.stats.deviations.clone()));
    switches += out.stats.switches;
    site_pairs.extend(out.stats.site_pairs.iter().cloned());
    counters.add("decisions", out.stats.decisions);
    counters.add("switches", out.stats.switches);
    for (k, v) in &out.stats.blocked {
      counters.add(&format!("blocked:{}", k), *v);
    }
    for (a, bb) in &out.stats.site_pairs {
      if a.starts_with("atomic.load@replace_source") && bb.starts_with("atomic.load@replace_source") {
        counters.inc("probe:two_sorters");
      }
    }
    if keep_trace {
      trace.push(format!("-- phase {} --", pi));
      trace.extend(out.stats.trace.iter().cloned());
    }
    match &out.stats.abort {
      Some(Abort::Deadlock { waiting }) => violations.push(Violation {
        kind: "deadlock".into(),
        op_class: "schedule".into(),
        detail: format!("phase {}: all observers blocked: {}", pi, waiting.join("; ")),
      }),
      Some(Abort::StepBudget { decisions }) => violations.push(Violation {
        kind: "no_progress".into(),
        op_class: "schedule".into(),
        detail: format!("phase {}: step budget exhausted after {} decisions", pi, decisions),
      }),
      _ => {}
    }
    if !out.unsafe_fails.is_empty() {
      violations.push(Violation {
        kind: "precondition".into(),
        op_class: "unsafe".into(),
        detail: format!("phase {}: {:?}", pi, out.unsafe_fails),
      });
    }
    for (t, ops) in threads.iter().enumerate() {
      for (i, op) in ops.iter().enumerate() {
        let a = &out.answers[t][i];
        let where_ = format!("phase {} T{} op{} {}", pi, t, i, op.kind.label());
        if !text_bearing(&op.kind) {
          if a.is_panic() {
            counters.inc("disturber_panics_ignored");
          }
          if matches!(a, Answer::Aborted { .. }) {
            counters.inc("fault:stream_cancelled_fired");
          }
          continue;
        }
        let kind_inner = match &op.kind {
          OpKind::CloneThen { then, .. } => {
            counters.inc("probe:clone_observed");
            (**then).clone()
          }
          k => k.clone(),
        };
        let bad: Option<String> = match (&kind_inner, a) {
          (_, Answer::NotRun) => None,
          (_, Answer::Panicked(m)) => Some(format!("panicked: {}", m)),
          (OpKind::Source, Answer::Text(t)) | (OpKind::Rope, Answer::Text(t)) => {
            (t != &expected).then(|| diff_brief(t, &expected))
          }
          (OpKind::Buffer, Answer::Bytes(bt)) => {
            (bt.as_slice() != expected.as_bytes()).then(|| diff_brief(&String::from_utf8_lossy(bt), &expected))
          }
          (OpKind::Size, Answer::Size(n)) => (*n != expected.len() as u64)
            .then(|| format!("answered {}, the replacement model says {}", n, expected.len())),
          (OpKind::ToWriter { plan }, w @ Answer::Written { io, .. }) => {
            counters.add("fault:short_write_fired", io.short_writes);
            counters.add("fault:eintr_fired", io.eintr);
            counters.add("fault:hard_write_error_fired", io.hard_errors);
            counters.add("fault:write_zero_fired", io.zero_returns);
            judge_written(w, plan, expected.as_bytes()).map(|d| {
              if d.len() > 3000 {
                let mut cut = 3000;
                while !d.is_char_boundary(cut) {
                  cut -= 1;
                }
                format!("{}... ({} bytes)", &d[..cut], d.len())
              } else {
                d
              }
            })
          }
          (_, other) => Some(format!("unexpected answer {}", other.brief())),
        };
        if let Some(d) = bad {
          violations.push(Violation {
            kind: "text_mismatch".into(),
            op_class: op.kind.class().into(),
            detail: format!("{} after {} call(s): {}", where_, all_calls.len(), d),
          });
        }
      }
    }
    if !violations.is_empty() {
      break;
    }
  }
  C05Result {
    violations,
    counters,
    log_hash,
    schedules,
    switches,
    trace,
    site_pairs,
  }
}

impl C05 {
  fn generate(&self, seed: u64, index: u64) -> C05Case {
    let mut rng = Rng::new(run_seed(seed, str_hash("C05"), index));
    let ascii = rng.chance(350);
    let mut cfg = GenCfg::small(ascii);
    cfg.max_depth = 2;
    cfg.max_nodes = 4;
    cfg.allow_user = false;
    let mut ids = Ids::new();
    let mut budget = cfg.max_nodes;
    let inner = if rng.chance(600) {
      crate::gen::gen_leaf(&mut rng, &cfg)
    } else {
      gen_tree(&mut rng, &cfg, &mut ids, cfg.max_depth, &mut budget)
    };
    let text = content(&inner).0;
    let n_phases = 1 + rng.usize_below(if crate::rng::deep() { 6 } else { 4 });
    let mut phases = vec![];
    let mut calls_so_far: Vec<ReplCall> = vec![];
    // swarm knob: 12% of the runs use many replacements on very few distinct
    // keys (sorting algorithms switch strategy with length; stability and the
    // enforce tie-break only show with many colliding keys)
    let many = rng.chance(120);
    let key_pool: Vec<(u32, u32)> = {
      let b = crate::gen::legal_positions(&text);
      (0..1 + rng.usize_below(3))
        .map(|_| {
          let a = *rng.pick(&b);
          let z = if rng.chance(600) { a } else { *rng.pick(&b) };
          (a.min(z), a.max(z))
        })
        .collect()
    };
    let many_budget = 21 + rng.usize_below(28);
    // swarm knob: 4% of the runs contain one burst of mutating calls whose
    // length sits next to a power of two (31 .. 65 540), in the first phase or
    // after an observation phase
    let burst_at: Option<usize> = if !many && rng.chance(40) {
      Some(if rng.chance(400) { 0 } else { 1 + rng.usize_below(2) })
    } else {
      None
    };
    let n_phases = match burst_at {
      Some(p) => n_phases.max(p + 1),
      None => n_phases,
    };
    for ph in 0..n_phases {
      let burst = if burst_at == Some(ph) {
        let b = crate::gen::legal_positions(&text);
        // a quarter of the bursts also use keys far beyond the end of the text
        // (all of them clamp to the end; their order among themselves still
        // follows start, then end)
        let far_keys = rng.chance(250);
        let mut keys: Vec<(u32, u32)> = (0..1 + rng.usize_below(8))
          .map(|_| {
            if far_keys && rng.chance(600) {
              let a = *rng.pick(&[300u32, 511, 512, 1000, 4095, 65_535, 70_000, 4_000_000_000]) + rng.below(40) as u32;
              let z = if rng.chance(300) { a } else { a + *rng.pick(&[1u32, 10, 1000, 100_000]) + rng.below(50) as u32 };
              return (a, z);
            }
            let a = *rng.pick(&b);
            let z = if rng.chance(700) { a } else { *rng.pick(&b) };
            (a.min(z), a.max(z))
          })
          .collect();
        let in_order = rng.chance(400);
        if in_order {
          keys.sort_unstable();
        }
        Some(Burst {
          n: crate::gen::magic_count(&mut rng, 16) as u32,
          keys,
          seed: rng.next_u64(),
          in_order,
        })
      } else {
        None
      };
      let n_calls = if many {
        if ph == 0 { many_budget * 2 / 3 } else if ph == 1 { many_budget - many_budget * 2 / 3 } else { rng.usize_below(3) }
      } else if calls_so_far.len() >= (if crate::rng::deep() { 20 } else { 12 }) {
        0
      } else {
        rng.usize_below(5)
      };
      let mut calls = vec![];
      for k in 0..n_calls {
        let mut c = gen_call(&mut rng, &text, ascii, &calls_so_far);
        if many {
          let (a, z) = *rng.pick(&key_pool);
          c.start = a;
          c.end = z;
          c.content = format!("<{}>", calls_so_far.len());
          if rng.chance(700) {
            c.enforce = None;
          }
          let _ = k;
        }
        calls_so_far.push(c.clone());
        calls.push(c);
      }
      let n_threads = match rng.below(10) {
        0..=3 => 1,
        4..=7 => 2,
        _ => 3,
      };
      let threads = (0..n_threads)
        .map(|_| (0..1 + rng.usize_below(3)).map(|_| gen_observer(&mut rng, &text, ascii, &calls_so_far)).collect())
        .collect();
      phases.push(Phase {
        fork: ph > 0 && rng.chance(200),
        burst,
        calls,
        threads,
      });
    }
    let knobs = Knobs::draw(&mut rng);
    {
      // orphaned clones (own PRNG stream; the case population is unchanged)
      let mut r = rng.fork(7);
      for ph in phases.iter_mut() {
        for th in ph.threads.iter_mut() {
          for k in th.iter_mut() {
            crate::conc::orphan_clone(k, &mut r);
          }
        }
      }
    }
    C05Case {
      kind: "replace".into(),
      inner,
      schedules: vec![None; phases.len()],
      phases,
      knobs,
    }
  }

  fn report(&self, index: u64, case: &C05Case, res: C05Result) -> RunReport {
    let mut c = case.clone();
    c.schedules = res.schedules.clone();
    let case_hash = str_hash(&serde_json::to_string(&(&case.inner, &case.phases)).unwrap_or_default());
    let mut oh = res.log_hash;
    for v in &res.violations {
      oh = splitmix64(oh ^ str_hash(&v.kind) ^ str_hash(&v.detail));
    }
    let n_of = |p: &Phase| p.calls.len() + p.burst.as_ref().map_or(0, |b| b.n as usize);
    let total_calls: usize = case.phases.iter().map(n_of).sum();
    let later_mutation = case.phases.iter().skip(1).any(|p| n_of(p) > 0);
    RunReport {
      index,
      violations: res.violations,
      counters: res.counters,
      log_hash: res.log_hash,
      case_hash,
      // non-trivial: at least two replacements and a mutation after an observation phase
      nontrivial: total_calls >= 2 && later_mutation,
      skipped: false,
      case: serde_json::to_value(&c).unwrap(),
      outcome_hash: oh,
      site_pairs: res.site_pairs.clone(),
    }
  }
}

fn case_shrinks(c: &C05Case) -> Vec<C05Case> {
  let mut out = vec![];
  let reset = |mut x: C05Case| {
    x.schedules = vec![None; x.phases.len()];
    x
  };
  // drop a phase (its calls move to the next phase so later text stays the same? no: drop entirely)
  for p in 0..c.phases.len() {
    if c.phases.len() > 1 {
      let mut x = c.clone();
      x.phases.remove(p);
      out.push(reset(x));
    }
    // merge phase p's calls into the next phase (removes one observation)
    if p + 1 < c.phases.len() {
      let mut x = c.clone();
      let calls = x.phases[p].calls.clone();
      x.phases.remove(p);
      let mut merged = calls;
      merged.extend(x.phases[p].calls.clone());
      x.phases[p].calls = merged;
      out.push(reset(x));
    }
  }
  for p in 0..c.phases.len() {
    if let Some(b) = &c.phases[p].burst {
      let mut with = |nb: Option<Burst>| {
        let mut x = c.clone();
        x.phases[p].burst = nb;
        out.push(reset(x));
      };
      with(None);
      if b.n > 1 {
        with(Some(Burst { n: b.n / 2, ..b.clone() }));
        with(Some(Burst { n: b.n - 1, ..b.clone() }));
        // the next smaller power of two
        let pow = 1u32 << (31 - b.n.leading_zeros());
        if pow < b.n {
          with(Some(Burst { n: pow, ..b.clone() }));
        }
      }
      if b.keys.len() > 1 {
        with(Some(Burst { keys: vec![b.keys[0]], ..b.clone() }));
      }
    }
    if c.phases[p].fork {
      let mut x = c.clone();
      x.phases[p].fork = false;
      out.push(reset(x));
    }
    for i in 0..c.phases[p].calls.len() {
      let mut x = c.clone();
      x.phases[p].calls.remove(i);
      out.push(reset(x));
    }
    if c.phases[p].threads.len() > 1 {
      for t in 0..c.phases[p].threads.len() {
        let mut x = c.clone();
        x.phases[p].threads.remove(t);
        out.push(reset(x));
      }
    }
    for t in 0..c.phases[p].threads.len() {
      if c.phases[p].threads[t].len() > 1 {
        for i in 0..c.phases[p].threads[t].len() {
          let mut x = c.clone();
          x.phases[p].threads[t].remove(i);
          out.push(reset(x));
        }
      }
      for i in 0..c.phases[p].threads[t].len() {
        if let OpKind::CloneThen { then, .. } = &c.phases[p].threads[t][i] {
          let mut x = c.clone();
          x.phases[p].threads[t][i] = (**then).clone();
          out.push(reset(x));
        }
        if let OpKind::ToWriter { plan } = &c.phases[p].threads[t][i] {
          if *plan != Default::default() {
            let mut x = c.clone();
            x.phases[p].threads[t][i] = OpKind::ToWriter { plan: Default::default() };
            out.push(reset(x));
          }
        }
      }
    }
    // simplify call fields
    for i in 0..c.phases[p].calls.len() {
      let call = &c.phases[p].calls[i];
      if !call.content.is_empty() && call.content.len() > 1 {
        let mut x = c.clone();
        x.phases[p].calls[i].content = call.content.chars().take(1).collect();
        out.push(reset(x));
      }
      if call.name.is_some() {
        let mut x = c.clone();
        x.phases[p].calls[i].name = None;
        out.push(reset(x));
      }
    }
  }
  // inner tree: only replace by a leaf with the same text (positions stay legal)
  let text = content(&c.inner).0;
  if !matches!(c.inner, TreeSpec::Raw { .. }) {
    let mut x = c.clone();
    x.inner = TreeSpec::Raw { text };
    out.push(reset(x));
  }
  let _ = tree_shrinks; // text-changing shrinks would invalidate positions
  out
}

impl Property for C05 {
  fn id(&self) -> &'static str {
    "C05"
  }
  fn level(&self) -> &'static str {
    "exploration"
  }
  fn run_one(&self, seed: u64, index: u64) -> RunReport {
    let case = self.generate(seed, index);
    let res = check_case(&case, false);
    self.report(index, &case, res)
  }
  fn case_of(&self, seed: u64, index: u64) -> Value {
    serde_json::to_value(self.generate(seed, index)).unwrap()
  }
  fn replay(&self, case: &Value, keep_trace: bool) -> (RunReport, Vec<String>) {
    let c: C05Case = serde_json::from_value(case.clone()).unwrap_or_else(|e| {
      eprintln!("HARNESS-ERROR: replay case does not parse: {}", e);
      std::process::exit(2);
    });
    let res = check_case(&c, keep_trace);
    let trace = res.trace.clone();
    (self.report(0, &c, res), trace)
  }
  fn shrink(&self, case: &Value, kind: &str) -> (Value, Value) {
    let orig: C05Case = match serde_json::from_value(case.clone()) {
      Ok(c) => c,
      Err(_) => return (case.clone(), json!(null)),
    };
    let from = json!({
      "phases": orig.phases.len(),
      "calls": orig.phases.iter().map(|p| p.calls.len()).sum::<usize>(),
      "observer_ops": orig.phases.iter().map(|p| p.threads.iter().map(|t| t.len()).sum::<usize>()).sum::<usize>(),
    });
    let fails = |c: &C05Case| -> Option<C05Case> {
      // recorded schedule first, then a fixed family of sub-seeds
      let r = check_case(c, false);
      if r.violations.iter().any(|v| v.kind == kind) {
        let mut x = c.clone();
        x.schedules = r.schedules;
        return Some(x);
      }
      for k in 0..30u64 {
        let mut x = c.clone();
        x.schedules = vec![None; x.phases.len()];
        x.knobs.sched_seed = splitmix64(0xC05 ^ k);
        x.knobs.policy = match k % 3 {
          0 => crate::sched::Policy::Walk { permille: 300 },
          1 => crate::sched::Policy::Pct { depth: 2, horizon: 30 },
          _ => crate::sched::Policy::Forced { k: 2, horizon: 20 },
        };
        let r = check_case(&x, false);
        if r.violations.iter().any(|v| v.kind == kind) {
          x.schedules = r.schedules;
          return Some(x);
        }
      }
      None
    };
    let mut cur = match fails(&orig) {
      Some(c) => c,
      None => return (case.clone(), from),
    };
    let mut budget = 300;
    'outer: loop {
      for cand in case_shrinks(&cur) {
        if budget == 0 {
          break 'outer;
        }
        budget -= 1;
        if let Some(ok) = fails(&cand) {
          cur = ok;
          continue 'outer;
        }
      }
      break;
    }
    (serde_json::to_value(&cur).unwrap(), from)
  }
  fn rule(&self) -> String {
    "case = (inner tree, 1-4 phases, knobs) from splitmix(VERIF_SEED, run index). A phase = optionally continuing on a clone of the value, then 0-4 mutating calls by the owner (insert / replace / *_with_enforce; positions from the char boundaries of the inner text plus positions beyond the end; deliberately colliding (start,end) keys, nesting, overlap, all enforce values; in 12% of the cases 21-48 calls on 1-3 colliding keys; in 4% of the cases one programmatic burst of 31 .. 65 540 calls, the count next to a power of two with extra weight on 2^8 and 2^16, in the first phase or after an observation phase; a quarter of the bursts use keys far beyond the end of the text) followed by an observation phase in which 1-3 simulated threads share &ReplaceSource and call source, rope, buffer, size, to_writer(fault plan), map, hash, stream (also cancelled), clone-then-observe, Debug rendering (also into a formatter sink that fails part-way) under a seeded schedule. Every text-bearing answer must equal the 12-line splice model applied to all calls so far. distinct_nontrivial = distinct histories with >= 2 replacements and a mutation after an observation phase.".into()
  }
  fn assumptions(&self) -> Vec<String> {
    vec![
      "the splice model is the property statement transcribed; positions are on char boundaries or beyond the end (the property's domain)".into(),
      "map / hash / stream are disturbers here: only their effect on later text answers is judged (their own results belong to other properties)".into(),
      "mutation is exclusive (&mut), so the schedule dimension only covers concurrent observers".into(),
    ]
  }
  fn real_vs_stub(&self) -> Value {
    json!({
      "real": ["ReplaceSource and every inner source type, std Mutex/AtomicBool underneath the seam"],
      "simulated": ["which observer thread runs at every access to the sorted-index mutex and the is_sorted flag", "writers passed to to_writer", "cancellation of streams"],
    })
  }
}
