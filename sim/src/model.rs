//! Reference models (oracles): VLQ codec, canonical attribution, the
//! replacement splice model and the structural content model. None of this
//! shares code with rspack-sources.

use std::collections::BTreeMap;

use serde::{Deserialize, Serialize};

use crate::spec::{ReplCall, TreeSpec};

// ---------------------------------------------------------------------------
// VLQ
// ---------------------------------------------------------------------------

const B64: &[u8; 64] =
  b"ABCDEFGHIJKLMNOPQRSTUVWXYZabcdefghijklmnopqrstuvwxyz0123456789+/";

fn b64_val(c: u8) -> Option<u32> {
  match c {
    b'A'..=b'Z' => Some((c - b'A') as u32),
    b'a'..=b'z' => Some((c - b'a') as u32 + 26),
    b'0'..=b'9' => Some((c - b'0') as u32 + 52),
    b'+' => Some(62),
    b'/' => Some(63),
    _ => None,
  }
}

pub fn vlq_encode(out: &mut String, v: i64) {
  let mut n: u64 = if v < 0 { ((-v as u64) << 1) | 1 } else { (v as u64) << 1 };
  loop {
    let mut digit = (n & 31) as u8;
    n >>= 5;
    if n != 0 {
      digit |= 32;
    }
    out.push(B64[digit as usize] as char);
    if n == 0 {
      break;
    }
  }
}

/// One decoded segment. Lines are 1-based, columns 0-based, `orig_line` is
/// 1-based (VLQ value + 1), matching the library's `Mapping`.
#[derive(Clone, Debug, PartialEq, Eq, Serialize, Deserialize)]
pub struct Seg {
  pub line: u32,
  pub col: u32,
  pub orig: Option<(u32, u32, u32, Option<u32>)>, // source idx, line, col, name idx
}

/// Decode a v3 mappings string. Returns `None` on malformed input.
pub fn decode_mappings(s: &str) -> Option<Vec<Seg>> {
  let mut out = vec![];
  let (mut si, mut ol, mut oc, mut ni) = (0i64, 0i64, 0i64, 0i64);
  for (li, line) in s.split(';').enumerate() {
    let mut gc = 0i64;
    if line.is_empty() {
      continue;
    }
    for seg in line.split(',') {
      if seg.is_empty() {
        continue;
      }
      let mut vals = [0i64; 5];
      let mut n = 0;
      let mut shift = 0u32;
      let mut acc: u64 = 0;
      for b in seg.bytes() {
        // characters outside the base64 alphabet carry no information and are
        // skipped (noise in a mappings string does not make it another map)
        let Some(d) = b64_val(b) else { continue };
        acc |= ((d & 31) as u64) << shift;
        if d & 32 != 0 {
          shift += 5;
          if shift > 60 {
            return None;
          }
        } else {
          if n >= 5 {
            return None;
          }
          let neg = acc & 1 == 1;
          let mag = (acc >> 1) as i64;
          vals[n] = if neg { -mag } else { mag };
          n += 1;
          acc = 0;
          shift = 0;
        }
      }
      if shift != 0 {
        return None;
      }
      if n == 0 {
        // nothing but noise between two separators: no segment
        continue;
      }
      gc += vals[0];
      let orig = if n >= 4 {
        si += vals[1];
        ol += vals[2];
        oc += vals[3];
        let name = if n == 5 {
          ni += vals[4];
          Some(ni as u32)
        } else {
          None
        };
        Some((si as u32, (ol + 1) as u32, oc as u32, name))
      } else if n == 1 {
        None
      } else {
        return None;
      };
      out.push(Seg {
        line: li as u32 + 1,
        col: gc as u32,
        orig,
      });
    }
  }
  Some(out)
}

/// Encode segments (sorted by line, then col) into a v3 mappings string.
pub fn encode_mappings(segs: &[Seg]) -> String {
  let mut out = String::new();
  let (mut si, mut ol, mut oc, mut ni) = (0i64, 0i64, 0i64, 0i64);
  let mut line = 1u32;
  let mut gc = 0i64;
  let mut first_in_line = true;
  for s in segs {
    while line < s.line {
      out.push(';');
      line += 1;
      gc = 0;
      first_in_line = true;
    }
    if !first_in_line {
      out.push(',');
    }
    first_in_line = false;
    vlq_encode(&mut out, s.col as i64 - gc);
    gc = s.col as i64;
    if let Some((s_i, o_l, o_c, n_i)) = s.orig {
      vlq_encode(&mut out, s_i as i64 - si);
      si = s_i as i64;
      vlq_encode(&mut out, o_l as i64 - 1 - ol);
      ol = o_l as i64 - 1;
      vlq_encode(&mut out, o_c as i64 - oc);
      oc = o_c as i64;
      if let Some(n) = n_i {
        vlq_encode(&mut out, n as i64 - ni);
        ni = n as i64;
      }
    }
  }
  out
}

// ---------------------------------------------------------------------------
// canonical attribution
// ---------------------------------------------------------------------------

/// Where a generated position comes from.
#[derive(Clone, Debug, PartialEq, Eq, PartialOrd, Ord, Serialize, Deserialize, Hash)]
pub struct Attr {
  pub file: String,
  pub line: u32,
  pub col: u32,
  pub name: Option<String>,
}

/// A segment with its tables resolved.
#[derive(Clone, Debug, PartialEq, Eq, Serialize, Deserialize)]
pub struct RSeg {
  pub line: u32,
  pub col: u32,
  pub attr: Option<Attr>,
}

/// Canonical attribution of a text.
/// `Full`: per generated line, maximal runs `(start_col, attr)` covering the
/// line's positions (including its newline), equal neighbours merged, the
/// leading unmapped run dropped; lines beyond the text are ignored.
/// `Lines`: per generated line the `(file, original line)` of the first
/// mapped segment.
#[derive(Clone, Debug, PartialEq, Eq, PartialOrd, Ord, Serialize, Deserialize, Hash)]
pub enum Canon {
  Full(Vec<Vec<(u32, Option<Attr>)>>),
  Lines(Vec<Option<(String, u32)>>),
}

/// Byte lengths of the lines of `text` (each including its `\n`); a text that
/// ends with `\n` has no extra empty last line.
pub fn line_lengths(text: &str) -> Vec<u32> {
  let mut v = vec![];
  let mut cur = 0u32;
  for b in text.bytes() {
    cur += 1;
    if b == b'\n' {
      v.push(cur);
      cur = 0;
    }
  }
  if cur > 0 {
    v.push(cur);
  }
  v
}

pub fn canon(text: &str, segs: &[RSeg], columns: bool) -> Canon {
  let lens = line_lengths(text);
  let mut per_line: BTreeMap<u32, Vec<&RSeg>> = BTreeMap::new();
  for s in segs {
    per_line.entry(s.line).or_default().push(s);
  }
  if columns {
    let mut out = Vec::with_capacity(lens.len());
    for (i, len) in lens.iter().enumerate() {
      let mut runs: Vec<(u32, Option<Attr>)> = vec![];
      if let Some(ss) = per_line.get(&(i as u32 + 1)) {
        let mut ss: Vec<&RSeg> = ss.iter().copied().filter(|s| s.col < *len).collect();
        ss.sort_by_key(|s| s.col); // stable: later segment at the same column wins
        for s in ss {
          if let Some(last) = runs.last_mut() {
            if last.0 == s.col {
              last.1 = s.attr.clone();
              continue;
            }
          }
          runs.push((s.col, s.attr.clone()));
        }
      }
      // merge equal neighbours, drop leading unmapped
      let mut merged: Vec<(u32, Option<Attr>)> = vec![];
      for r in runs {
        match merged.last() {
          Some(l) if l.1 == r.1 => {}
          None if r.1.is_none() => {}
          _ => merged.push(r),
        }
      }
      out.push(merged);
    }
    Canon::Full(out)
  } else {
    let mut out = Vec::with_capacity(lens.len());
    for i in 0..lens.len() {
      let first = per_line.get(&(i as u32 + 1)).and_then(|ss| {
        // first mapped segment in delivery/encoding order with minimal column
        let mut best: Option<&RSeg> = None;
        for s in ss {
          if s.attr.is_some() && best.map_or(true, |b| s.col < b.col) {
            best = Some(s);
          }
        }
        best.and_then(|s| s.attr.as_ref().map(|a| (a.file.clone(), a.line)))
      });
      out.push(first);
    }
    Canon::Lines(out)
  }
}

/// Resolve decoded segments against a map's tables (sourceRoot applied the
/// way source-map consumers do).
pub fn resolve_map_segs(
  segs: &[Seg],
  sources: &[String],
  names: &[String],
  source_root: Option<&str>,
) -> Vec<RSeg> {
  segs
    .iter()
    .map(|s| RSeg {
      line: s.line,
      col: s.col,
      attr: s.orig.map(|(si, ol, oc, ni)| {
        let raw = sources.get(si as usize).cloned().unwrap_or_else(|| format!("<missing source {}>", si));
        let file = match source_root {
          None | Some("") => raw,
          Some(r) if r.ends_with('/') => format!("{}{}", r, raw),
          Some(r) => format!("{}/{}", r, raw),
        };
        Attr {
          file,
          line: ol,
          col: oc,
          name: ni.map(|n| names.get(n as usize).cloned().unwrap_or_else(|| format!("<missing name {}>", n))),
        }
      }),
    })
    .collect()
}

// ---------------------------------------------------------------------------
// splice model (C05) and content model (C07)
// ---------------------------------------------------------------------------

/// The statement of C05 as code: stable sort by (start, end, enforce,
/// insertion order); copy the not-yet-consumed inner text up to `start`, emit
/// the content, count everything up to `end` as consumed; clamp.
pub fn splice(inner: &str, calls: &[ReplCall]) -> String {
  let mut order: Vec<usize> = (0..calls.len()).collect();
  order.sort_by_key(|i| (calls[*i].start, calls[*i].end, calls[*i].enforce_rank(), *i));
  let len = inner.len();
  let mut out = String::new();
  let mut pos = 0usize;
  for i in order {
    let c = &calls[i];
    let start = (c.start as usize).min(len);
    if pos < start {
      out.push_str(&inner[pos..start]);
    }
    out.push_str(&c.content);
    pos = pos.max(c.end as usize).min(len);
    // copying up to `start` also consumes it
    pos = pos.max(start.min(len));
  }
  out.push_str(&inner[pos..]);
  out
}

/// Are all replacement bounds in the property's domain (start <= end, each on
/// a char boundary of the inner text or beyond its end)?
pub fn in_domain(spec: &TreeSpec) -> bool {
  match spec {
    TreeSpec::Concat { children, .. } => children.iter().all(in_domain),
    TreeSpec::Replace { inner, calls, .. } => {
      if !in_domain(inner) {
        return false;
      }
      let text = content(inner).0;
      let ok = |p: u32| (p as usize) >= text.len() || text.is_char_boundary(p as usize);
      calls.iter().all(|c| c.start <= c.end && ok(c.start) && ok(c.end))
    }
    TreeSpec::Cached { inner, .. } | TreeSpec::User { inner, .. } | TreeSpec::Boxed { inner } => {
      in_domain(inner)
    }
    _ => true,
  }
}

/// Expected `(source(), buffer())` of a tree, computed from the spec alone.
pub fn content(spec: &TreeSpec) -> (String, Vec<u8>) {
  match spec {
    TreeSpec::Raw { text } | TreeSpec::RawString { text } => {
      (text.clone(), text.as_bytes().to_vec())
    }
    TreeSpec::RawBytes { bytes } | TreeSpec::RawBuffer { bytes } => {
      (String::from_utf8_lossy(bytes).into_owned(), bytes.clone())
    }
    TreeSpec::Original { text, .. } | TreeSpec::SourceMap { text, .. } => {
      (text.clone(), text.as_bytes().to_vec())
    }
    TreeSpec::Concat { children, .. } => {
      let mut s = String::new();
      let mut b = vec![];
      for c in children {
        let (cs, cb) = content(c);
        s.push_str(&cs);
        b.extend_from_slice(&cb);
      }
      (s, b)
    }
    TreeSpec::Replace { inner, calls, .. } => {
      // A ReplaceSource derives every view from its (decoded) text, also
      // when it has no replacements and sits over a binary leaf.
      let (s, _) = content(inner);
      let t = if calls.is_empty() { s } else { splice(&s, calls) };
      let bytes = t.as_bytes().to_vec();
      (t, bytes)
    }
    TreeSpec::Cached { inner, .. }
    | TreeSpec::User { inner, .. }
    | TreeSpec::Boxed { inner } => content(inner),
  }
}

#[cfg(test)]
mod tests {
  use super::*;

  #[test]
  fn vlq_roundtrip() {
    let segs = vec![
      Seg { line: 1, col: 0, orig: Some((0, 1, 0, None)) },
      Seg { line: 1, col: 5, orig: Some((1, 3, 2, Some(0))) },
      Seg { line: 3, col: 2, orig: None },
      Seg { line: 3, col: 9, orig: Some((0, 1, 7, Some(2))) },
    ];
    let s = encode_mappings(&segs);
    assert_eq!(decode_mappings(&s).unwrap(), segs);
    assert_eq!(decode_mappings("AAAA;;AACA").unwrap().len(), 2);
  }
}
