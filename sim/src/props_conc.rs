//! Properties decided by concurrent scenarios: C18 (answers, deadlock,
//! write-once cache) and C19 (unsafe preconditions, consumer tail; the same
//! scenarios are what the Miri tier executes).

use serde::{Deserialize, Serialize};
use serde_json::{json, Value};

use crate::{
  conc::{check_conc, gen_scenario, ConcResult, JudgeCfg},
  driver::{Property, RunReport},
  rng::{run_seed, splitmix64, str_hash, Rng},
  runner::{Knobs, Scenario},
  sched::Policy,
  spec::{Op, OpKind, TreeSpec},
};

#[derive(Clone, Debug, Serialize, Deserialize)]
pub struct ConcCase {
  pub kind: String, // "conc"
  pub scenario: Scenario,
  pub knobs: Knobs,
  /// deviations from the default schedule; `None`: draw the schedule from
  /// `knobs.policy` / `knobs.sched_seed` (as the original run did)
  pub schedule: Option<Vec<(u64, usize)>>,
}

pub type CheckFn = fn(&Scenario, &Knobs, Option<Vec<(u64, usize)>>, &JudgeCfg) -> ConcResult;

pub struct ConcProp {
  pub check: CheckFn,
  pub rule: &'static str,
  pub extra_assumptions: &'static [&'static str],
  pub id: &'static str,
  pub judge: JudgeCfg,
  pub gen: fn(&mut Rng) -> Scenario,
  pub stream: &'static str,
}

pub fn c18() -> ConcProp {
  ConcProp {
    check: check_conc,
    rule: CONC_RULE,
    extra_assumptions: &[],
    id: "C18",
    judge: JudgeCfg {
      compare_answers: true,
      consume: false,
      fatal_events: true,
      skip_baselines: false,
      keep_trace: false,
    },
    gen: gen_scenario,
    stream: "C18",
  }
}

pub fn c19() -> ConcProp {
  ConcProp {
    check: check_conc,
    rule: CONC_RULE,
    extra_assumptions: &[],
    id: "C19",
    judge: JudgeCfg {
      compare_answers: false,
      consume: true,
      fatal_events: true,
      skip_baselines: false,
      keep_trace: false,
    },
    gen: gen_scenario,
    // deliberately the same stream as C18: C19 re-executes C18's scenarios
    stream: "C18",
  }
}

pub fn c14() -> ConcProp {
  ConcProp {
    check: crate::strict::check_c14,
    rule: "case = (scenario, knobs, schedule) from splitmix(VERIF_SEED, run index): a constructor program P (every source type, also re-boxed / behind dyn), objects a = P(), b = P() (own caches), c = P'() with P' one edit away (leaf text, file name, replacement field / order, child, attached map, node type); 1-3 simulated threads issue observers on a, b, c and comparison ops (==, hash with a fixed hasher, clone-then-compare, clone-then-hash, HashMap insert/lookup). Oracle: every answer equals the answer of the same call on a cold value (no union over orders); cold cross-checks: a == b, hash(a) == hash(b), symmetric ==, equal values answer every observer alike (text exact, attribution canonical, a map's file / sourceRoot / debugId exact), and a == c implies equal hashes and answers. distinct_nontrivial = distinct (scenario, event-log hash) pairs with at least one thread switch or, for single-thread histories, at least one comparison after an observer.",
    extra_assumptions: &["FxHasher with its fixed initial state is the hasher; hashes are compared within one process only"],
    id: "C14",
    judge: JudgeCfg {
      compare_answers: true,
      consume: false,
      fatal_events: true,
      skip_baselines: false,
      keep_trace: false,
    },
    gen: crate::strict::gen_c14,
    stream: "C14",
  }
}

pub fn c10() -> ConcProp {
  ConcProp {
    check: crate::strict::check_c10,
    rule: "case = (scenario, knobs, schedule) from splitmix(VERIF_SEED, run index): a wrapped ASCII tree W (all source types, may itself contain CachedSource and user-defined sources), c = CachedSource::new(W) and 0-2 clones sharing its caches; 1-3 simulated threads (60% one thread = plain call history) run 1-8 calls of source/buffer/size/rope/to_writer(fault plan)/map/stream(also cancelled)/hash/clone-then-observe with alternating column settings. Oracle: every answer equals what a cold W answers to the same call (text, bytes, size, end info exact; maps and chunk streams by canonical per-position attribution for the same column setting), also in a final pass after the history. A mismatch over a W that is itself not self-consistent (its own map() and chunk stream disagree, or it reports untrue positions) is classified as inherited. distinct_nontrivial = distinct (scenario, event-log hash) pairs that contain a thread switch, or single-thread histories with >= 2 calls.",
    extra_assumptions: &["W's own consistency is judged without any CachedSource code and only reclassifies a mismatch (inherited_inconsistency vs not_transparent); it never hides one"],
    id: "C10",
    judge: JudgeCfg {
      compare_answers: true,
      consume: false,
      fatal_events: true,
      skip_baselines: false,
      keep_trace: false,
    },
    gen: crate::strict::gen_c10,
    stream: "C10",
  }
}

fn hash_value(v: &impl Serialize) -> u64 {
  str_hash(&serde_json::to_string(v).unwrap_or_default())
}

impl ConcProp {
  pub fn report(&self, index: u64, case: &ConcCase, res: &ConcResult) -> RunReport {
    let mut out_case = case.clone();
    out_case.schedule = Some(res.outcome.stats.deviations.clone());
    let mut oh = res.outcome.stats.log_hash;
    for t in &res.outcome.answers {
      for a in t {
        oh = splitmix64(oh ^ str_hash(&a.brief()));
      }
    }
    for v in &res.violations {
      oh = splitmix64(oh ^ str_hash(&v.kind));
    }
    RunReport {
      index,
      violations: res.violations.clone(),
      counters: res.counters.clone(),
      log_hash: res.outcome.stats.log_hash,
      case_hash: hash_value(&case.scenario),
      // non-trivial: at least two threads actually interleaved
      nontrivial: res.skipped.is_none()
        && (res.outcome.stats.switches > 0 || (case.scenario.threads.len() == 1 && case.scenario.n_ops() >= 2)),
      skipped: res.skipped.is_some(),
      case: serde_json::to_value(&out_case).unwrap(),
      outcome_hash: oh,
      site_pairs: res.outcome.stats.site_pairs.clone(),
    }
  }

  pub fn generate(&self, seed: u64, index: u64) -> ConcCase {
    let rs = run_seed(seed, str_hash(self.stream), index);
    let mut rng = Rng::new(rs);
    let mut scenario = (self.gen)(&mut rng.fork(1));
    let knobs = Knobs::draw(&mut rng.fork(2));
    crate::conc::inject_child_faults(&mut scenario, &mut rng.fork(3));
    ConcCase {
      kind: "conc".into(),
      scenario,
      knobs,
      schedule: None,
    }
  }

  fn fails_with(&self, case: &ConcCase, kind: &str, tries: u32) -> Option<ConcCase> {
    // 1. the recorded schedule
    {
      let r = (self.check)(&case.scenario, &case.knobs, case.schedule.clone(), &self.judge);
      if r.violations.iter().any(|v| v.kind == kind) {
        let mut c = case.clone();
        c.schedule = Some(r.outcome.stats.deviations.clone());
        return Some(c);
      }
    }
    // 2. re-search schedules with a fixed sub-seed stream
    for k in 0..tries {
      let mut knobs = case.knobs.clone();
      knobs.sched_seed = splitmix64(0xABCD ^ k as u64);
      knobs.policy = match k % 4 {
        0 => Policy::Walk { permille: 300 },
        1 => Policy::Walk { permille: 100 },
        2 => Policy::Pct { depth: 2, horizon: 40 },
        _ => Policy::Forced { k: 2, horizon: 30 },
      };
      let r = (self.check)(&case.scenario, &knobs, None, &self.judge);
      if r.violations.iter().any(|v| v.kind == kind) {
        return Some(ConcCase {
          kind: "conc".into(),
          scenario: case.scenario.clone(),
          knobs,
          schedule: Some(r.outcome.stats.deviations.clone()),
        });
      }
    }
    None
  }
}

/// All one-step simplifications of a tree.
pub fn tree_shrinks(t: &TreeSpec) -> Vec<TreeSpec> {
  let mut out = vec![];
  match t {
    TreeSpec::Raw { text } | TreeSpec::RawString { text } => {
      if text.len() > 1 {
        let mut cut = text.len() / 2;
        while !text.is_char_boundary(cut) {
          cut -= 1;
        }
        out.push(TreeSpec::Raw { text: text[..cut].to_string() });
        out.push(TreeSpec::Raw { text: text[cut..].to_string() });
      }
    }
    TreeSpec::RawBytes { bytes } | TreeSpec::RawBuffer { bytes } => {
      if bytes.len() > 1 {
        let cut = bytes.len() / 2;
        let mk = |b: Vec<u8>| match t {
          TreeSpec::RawBytes { .. } => TreeSpec::RawBytes { bytes: b },
          _ => TreeSpec::RawBuffer { bytes: b },
        };
        out.push(mk(bytes[..cut].to_vec()));
        out.push(mk(bytes[cut..].to_vec()));
      }
    }
    TreeSpec::Original { text, name } => {
      if text.len() > 1 {
        let mut cut = text.len() / 2;
        while !text.is_char_boundary(cut) {
          cut -= 1;
        }
        out.push(TreeSpec::Original { text: text[..cut].to_string(), name: name.clone() });
        out.push(TreeSpec::Original { text: text[cut..].to_string(), name: name.clone() });
      }
    }
    TreeSpec::SourceMap { text, name, map, inner } => {
      if inner.is_some() {
        out.push(TreeSpec::SourceMap { text: text.clone(), name: name.clone(), map: map.clone(), inner: None });
      }
      out.push(TreeSpec::Original { text: text.clone(), name: name.clone() });
    }
    TreeSpec::Concat { children, how } => {
      for c in children {
        out.push(c.clone());
      }
      for i in 0..children.len() {
        let mut k = children.clone();
        k.remove(i);
        out.push(TreeSpec::Concat { children: k, how: how.clone() });
      }
      for (i, c) in children.iter().enumerate() {
        for s in tree_shrinks(c) {
          let mut k = children.clone();
          k[i] = s;
          out.push(TreeSpec::Concat { children: k, how: how.clone() });
        }
      }
    }
    TreeSpec::Replace { inner, calls, .. } => {
      out.push((**inner).clone());
      for i in 0..calls.len() {
        let mut k = calls.clone();
        k.remove(i);
        out.push(TreeSpec::Replace { inner: inner.clone(), calls: k, observe_at: None });
      }
      // shrinking the inner text would invalidate positions; only structural
      // replacement of the inner by a leaf with the same text is safe
      let text = crate::model::content(inner).0;
      if !matches!(**inner, TreeSpec::Raw { .. }) {
        out.push(TreeSpec::Replace { inner: Box::new(TreeSpec::Raw { text }), calls: calls.clone(), observe_at: None });
      }
    }
    TreeSpec::Cached { inner, cache_id } => {
      out.push((**inner).clone());
      for s in tree_shrinks(inner) {
        out.push(TreeSpec::Cached { inner: Box::new(s), cache_id: *cache_id });
      }
    }
    TreeSpec::User { inner, id } => {
      out.push((**inner).clone());
      for s in tree_shrinks(inner) {
        out.push(TreeSpec::User { inner: Box::new(s), id: *id });
      }
    }
    TreeSpec::Boxed { inner } => {
      out.push((**inner).clone());
    }
  }
  out
}

/// Replace every `Cached` node with id `cid` by the same node over `new_inner`
/// so clones keep sharing one definition.
fn map_cached(t: &TreeSpec, cid: u32, new: &TreeSpec) -> TreeSpec {
  match t {
    TreeSpec::Cached { cache_id, .. } if *cache_id == cid => new.clone(),
    TreeSpec::Cached { inner, cache_id } => TreeSpec::Cached { inner: Box::new(map_cached(inner, cid, new)), cache_id: *cache_id },
    TreeSpec::Concat { children, how } => TreeSpec::Concat { children: children.iter().map(|c| map_cached(c, cid, new)).collect(), how: how.clone() },
    TreeSpec::Replace { inner, calls, observe_at } => TreeSpec::Replace { inner: Box::new(map_cached(inner, cid, new)), calls: calls.clone(), observe_at: *observe_at },
    TreeSpec::User { inner, id } => TreeSpec::User { inner: Box::new(map_cached(inner, cid, new)), id: *id },
    TreeSpec::Boxed { inner } => TreeSpec::Boxed { inner: Box::new(map_cached(inner, cid, new)) },
    leaf => leaf.clone(),
  }
}

fn op_shrinks(k: &OpKind) -> Vec<OpKind> {
  match k {
    OpKind::CloneThen { then, .. } | OpKind::ChildFault { then, .. } => vec![(**then).clone()],
    OpKind::Stream { columns, abort_at: Some(_) } => vec![OpKind::Stream { columns: *columns, abort_at: None }],
    OpKind::ToWriter { plan } if *plan != Default::default() => vec![OpKind::ToWriter { plan: Default::default() }],
    _ => vec![],
  }
}

pub fn scenario_shrinks(s: &Scenario) -> Vec<Scenario> {
  let mut out = vec![];
  // drop a thread
  if s.threads.len() > 1 {
    for t in 0..s.threads.len() {
      let mut c = s.clone();
      c.threads.remove(t);
      out.push(c);
    }
  }
  // drop an op
  for t in 0..s.threads.len() {
    if s.threads[t].len() > 1 || s.threads.len() > 1 {
      for i in 0..s.threads[t].len() {
        let mut c = s.clone();
        c.threads[t].remove(i);
        if c.threads[t].is_empty() {
          c.threads.remove(t);
        }
        if !c.threads.is_empty() {
          out.push(c);
        }
      }
    }
  }
  // simplify an op
  for t in 0..s.threads.len() {
    for i in 0..s.threads[t].len() {
      for k in op_shrinks(&s.threads[t][i].kind) {
        let mut c = s.clone();
        c.threads[t][i].kind = k;
        out.push(c);
      }
    }
  }
  // object positions carry meaning in these families (C10: object 0 is the
  // wrapped tree and the others are caches over it; C14: a, b, c)
  let positional = s.family == "c10" || s.family == "c14";
  if s.family == "c10" {
    if let Some(TreeSpec::Cached { cache_id, .. }) = s.objects.get(1) {
      for small in tree_shrinks(&s.objects[0]) {
        let mut c = s.clone();
        for (i, obj) in c.objects.iter_mut().enumerate() {
          *obj = if i == 0 {
            small.clone()
          } else {
            TreeSpec::Cached {
              inner: Box::new(small.clone()),
              cache_id: *cache_id,
            }
          };
        }
        out.push(c);
      }
    }
  }
  if positional {
    return out;
  }
  // drop an unused object
  for o in 0..s.objects.len() {
    let used = s.threads.iter().flatten().any(|op| {
      op.obj == o
        || matches!(&op.kind, OpKind::Eq { other } if *other == o)
        || matches!(&op.kind, OpKind::Lookup { probe } if *probe == o)
    });
    if !used && s.objects.len() > 1 {
      let mut c = s.clone();
      c.objects.remove(o);
      for th in c.threads.iter_mut() {
        for op in th.iter_mut() {
          if op.obj > o {
            op.obj -= 1;
          }
          if let OpKind::Eq { other } | OpKind::Lookup { probe: other } = &mut op.kind {
            if *other > o {
              *other -= 1;
            }
          }
        }
      }
      out.push(c);
    }
  }
  // simplify a tree; clones of one cache are rewritten together
  for o in 0..s.objects.len() {
    for small in tree_shrinks(&s.objects[o]) {
      let mut c = s.clone();
      if let (TreeSpec::Cached { cache_id, .. }, true) = (&s.objects[o], true) {
        if matches!(small, TreeSpec::Cached { .. }) {
          for obj in c.objects.iter_mut() {
            *obj = map_cached(obj, *cache_id, &small);
          }
          out.push(c);
          continue;
        }
      }
      c.objects[o] = small;
      out.push(c);
    }
  }
  out
}

impl Property for ConcProp {
  fn id(&self) -> &'static str {
    self.id
  }
  fn level(&self) -> &'static str {
    "exploration"
  }

  fn run_one(&self, seed: u64, index: u64) -> RunReport {
    let case = self.generate(seed, index);
    let res = (self.check)(&case.scenario, &case.knobs, None, &self.judge);
    self.report(index, &case, &res)
  }

  fn case_of(&self, seed: u64, index: u64) -> Value {
    serde_json::to_value(self.generate(seed, index)).unwrap()
  }

  fn replay(&self, case: &Value, keep_trace: bool) -> (RunReport, Vec<String>) {
    let c: ConcCase = serde_json::from_value(case.clone()).unwrap_or_else(|e| {
      eprintln!("HARNESS-ERROR: replay case does not parse: {}", e);
      std::process::exit(2);
    });
    let mut judge = self.judge.clone();
    judge.keep_trace = keep_trace;
    let res = (self.check)(&c.scenario, &c.knobs, c.schedule.clone(), &judge);
    let trace = res.outcome.stats.trace.clone();
    (self.report(0, &c, &res), trace)
  }

  fn shrink(&self, case: &Value, kind: &str) -> (Value, Value) {
    let orig: ConcCase = match serde_json::from_value(case.clone()) {
      Ok(c) => c,
      Err(_) => return (case.clone(), json!(null)),
    };
    let from = json!({
      "threads": orig.scenario.threads.len(),
      "ops": orig.scenario.n_ops(),
      "nodes": orig.scenario.n_nodes(),
      "schedule_deviations": orig.schedule.as_ref().map_or(0, |s| s.len()),
    });
    let mut cur = match self.fails_with(&orig, kind, 0) {
      Some(c) => c,
      None => return (case.clone(), from),
    };
    let mut budget = 400u32;
    'outer: loop {
      for cand in scenario_shrinks(&cur.scenario) {
        if budget == 0 {
          break 'outer;
        }
        budget -= 1;
        let c = ConcCase {
          kind: "conc".into(),
          scenario: cand,
          knobs: cur.knobs.clone(),
          schedule: cur.schedule.clone(),
        };
        if let Some(ok) = self.fails_with(&c, kind, 40) {
          cur = ok;
          continue 'outer;
        }
      }
      break;
    }
    // drop schedule deviations one by one
    let mut i = 0;
    loop {
      let sched = cur.schedule.clone().unwrap_or_default();
      if i >= sched.len() {
        break;
      }
      let mut shorter = sched.clone();
      shorter.remove(i);
      let r = (self.check)(&cur.scenario, &cur.knobs, Some(shorter), &self.judge);
      if r.violations.iter().any(|v| v.kind == kind) && r.outcome.stats.deviations.len() < sched.len() {
        cur.schedule = Some(r.outcome.stats.deviations.clone());
        i = 0;
      } else {
        i += 1;
      }
    }
    (serde_json::to_value(&cur).unwrap(), from)
  }

  fn rule(&self) -> String {
    self.rule.to_string()
  }

  fn assumptions(&self) -> Vec<String> {
    vec![
      "sequentially consistent model: every shared-state access is one atomic step (the crate uses SeqCst and lock-protected data only)".into(),
      "only primitives routed through src/sync_seam.rs are scheduling points; a primitive written out as std::sync::... elsewhere would be invisible".into(),
      "a concurrent answer is accepted when some order of a fixed family of sequential orders produces it (each op alone, each thread alone, all thread orders back to back, round robin)".into(),
      "attribution is compared for ASCII trees only, and skipped when a wrapped tree is not sequentially self-consistent (that is C10's finding)".into(),
      "sampling, not enumeration: a clean batch is evidence, not proof".into(),
    ]
    .into_iter()
    .chain(self.extra_assumptions.iter().map(|s| s.to_string()))
    .collect()
  }

  fn real_vs_stub(&self) -> Value {
    json!({
      "real": ["all of rspack-sources (built from /repo's working tree with --cfg rspack_sources_verif)", "dashmap 6.1.0", "std Mutex / AtomicBool / OnceLock underneath the seam wrappers", "simd-json", "OS threads"],
      "simulated": ["the choice of which thread runs at every shared-state access", "waiting on a held lock (try + announce blocked instead of parking)", "OnceLock::get_or_init waiting (busy flag instead of std's internal queue)", "writers passed to to_writer", "user-defined child sources", "DashMap shard count"],
    })
  }
}

pub const CONC_RULE: &str = "case = (scenario, knobs, schedule) drawn from splitmix(VERIF_SEED, run index): 60% general random scenarios (1-4 shared roots incl. clones sharing caches and structural twins, 2-3 threads x 1-4 ops), 40% directed families; schedule policy, switch rate, DashMap shard count and callback points re-drawn per run. A case counts as distinct_nontrivial when at least one thread switch happened and its (scenario, event-log hash) pair was not seen before in this batch; distinct_interleavings = distinct event-log hashes.";

#[allow(dead_code)]
fn _unused(_: Op) {}

// ---------------------------------------------------------------------------
// C19 = concurrent scenarios (3 of 4 runs) + seeded rope programs (1 of 4)
// ---------------------------------------------------------------------------

pub struct C19Prop {
  pub conc: ConcProp,
}

impl C19Prop {
  fn rope_case(&self, seed: u64, index: u64) -> crate::rope_prog::RopeCase {
    let mut rng = Rng::new(run_seed(seed, str_hash("C19-rope"), index));
    crate::rope_prog::gen_rope_case(&mut rng)
  }

  fn rope_report(&self, index: u64, case: &crate::rope_prog::RopeCase) -> RunReport {
    let (violations, counters) = crate::rope_prog::check_rope_case(case);
    let h = hash_value(case);
    RunReport {
      index,
      violations,
      counters,
      log_hash: h,
      case_hash: h,
      nontrivial: case.ops.len() >= 3,
      skipped: false,
      case: serde_json::to_value(case).unwrap(),
      outcome_hash: h,
      site_pairs: Default::default(),
    }
  }
}

impl Property for C19Prop {
  fn id(&self) -> &'static str {
    "C19"
  }
  fn level(&self) -> &'static str {
    "exploration"
  }
  fn run_one(&self, seed: u64, index: u64) -> RunReport {
    if index % 4 == 3 {
      let case = self.rope_case(seed, index);
      self.rope_report(index, &case)
    } else {
      self.conc.run_one(seed, index)
    }
  }
  fn case_of(&self, seed: u64, index: u64) -> Value {
    if index % 4 == 3 {
      serde_json::to_value(self.rope_case(seed, index)).unwrap()
    } else {
      self.conc.case_of(seed, index)
    }
  }
  fn replay(&self, case: &Value, keep_trace: bool) -> (RunReport, Vec<String>) {
    if case["kind"] == "rope" {
      let c: crate::rope_prog::RopeCase = serde_json::from_value(case.clone()).unwrap_or_else(|e| {
        eprintln!("HARNESS-ERROR: replay case does not parse: {}", e);
        std::process::exit(2);
      });
      (self.rope_report(0, &c), vec![])
    } else {
      self.conc.replay(case, keep_trace)
    }
  }
  fn shrink(&self, case: &Value, kind: &str) -> (Value, Value) {
    if case["kind"] == "rope" {
      match serde_json::from_value::<crate::rope_prog::RopeCase>(case.clone()) {
        Ok(c) => {
          let from = json!({"ops": c.ops.len(), "arena_bytes": c.arena.iter().map(|s| s.len()).sum::<usize>()});
          let small = crate::rope_prog::shrink_rope_case(&c, kind);
          (serde_json::to_value(&small).unwrap(), from)
        }
        Err(_) => (case.clone(), json!(null)),
      }
    } else {
      self.conc.shrink(case, kind)
    }
  }
  fn rule(&self) -> String {
    format!(
      "three of four runs: {} The other quarter of the runs are seeded rope programs (new / from / from_iter incl. empty and all-empty piece lists / add / append, slices through every RangeBounds form incl. off-boundary, out-of-range and unbounded ranges, byte_slice_unchecked on valid ranges, char_indices, lines, starts_with, ends_with) compared with a String model. All runs execute with the guarded precondition assertion armed at each of the 15 unsafe sites; the threads' streams end with a consumer tail (gather chunks into ropes, slice, iterate). Only precondition failures, cache replacement, consumer-tail errors and (Miri tier) UB reports are violations here.",
      self.conc.rule
    )
  }
  fn assumptions(&self) -> Vec<String> {
    let mut a = self.conc.assumptions();
    a.push("the precondition predicates are faithful transcriptions of the SAFETY comments".into());
    a.push("input-only preconditions are reached by sampling (scenarios, consumer tail, rope programs), not systematically; per-site hit counts are reported".into());
    a
  }
  fn real_vs_stub(&self) -> Value {
    self.conc.real_vs_stub()
  }
}
