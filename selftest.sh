#!/usr/bin/env bash
# ./check selftest determinism [N]
# Determinism proof: for every claimed property run N seeds' worth of cases
# twice, in separate processes, with 16 worker processes and with 3, and
# compare the per-run tables (run index, event-log hash, outcome hash) byte for
# byte. Any difference is a harness error (exit 2).
set -u
cd "$(dirname "$0")"
MODE="${1:-determinism}"; N="${2:-20000}"
BIN="$(pwd)/target/native/release/vsim"
TMP="$(pwd)/target/selftest"; rm -rf "$TMP"; mkdir -p "$TMP"
export VSIM_VERIF_DIR="$TMP"   # keep replays/evidence of the self-test out of /verif
cp known_findings.json "$TMP/" 2>/dev/null
rc=0
# the simulator's own sensitivity: toy deadlock / race over the seam's wrappers
"$BIN" selftest || rc=2
for p in C05 C07 C10 C14 C15 C18 C19; do
  n=$N; [ "$p" = C07 ] && n=$((N/4))
  for seed in 1 7; do
    "$BIN" run $p --seed $seed --runs $n --workers 16 --table "$TMP/$p-$seed-a.tab" --no-evidence >"$TMP/$p-$seed-a.log" 2>&1
    "$BIN" run $p --seed $seed --runs $n --workers 3  --table "$TMP/$p-$seed-b.tab" --no-evidence >"$TMP/$p-$seed-b.log" 2>&1
    if cmp -s "$TMP/$p-$seed-a.tab" "$TMP/$p-$seed-b.tab"; then
      echo "determinism $p seed=$seed runs=$n: identical tables (16 vs 3 worker processes), $(cut -d' ' -f2 "$TMP/$p-$seed-a.tab" | sort -u | wc -l) distinct event-log hashes"
    else
      echo "HARNESS-ERROR: determinism $p seed=$seed: tables differ: $(diff "$TMP/$p-$seed-a.tab" "$TMP/$p-$seed-b.tab" | head -3 | tr '\n' ' ')"
      rc=2
    fi
  done
done
exit $rc
