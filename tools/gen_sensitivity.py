#!/usr/bin/env python3
"""Regenerates DESIGN.md section 13 from seeded/*/meta.json (run from /verif)."""
import json,os
rows=[]
for d in sorted(os.listdir('seeded')):
    m=json.load(open(f'seeded/{d}/meta.json'))
    checks=dict(m['quick_checks_with_change_applied_to_repo'])
    last=m.get('last_sweep',{})
    checks.update(last)
    caught=[k for k,v in checks.items() if v==1]
    missed=[k for k,v in checks.items() if v==0]
    rows.append((d,m['breaks_property'],m.get('round',1),m['needs_to_manifest'],caught,missed,m.get('detection_history','')))
n=len(rows)
primary_caught=sum(1 for r in rows if r[1] in r[4])
first_try=sum(1 for r in rows if r[1] in r[4] and not r[6])
out=[]
out.append("\n## 13. Sensitivity — independent seeded changes and which checks catch them\n")
out.append(f"""{n} breaking changes were written by fresh sub-agents in fourteen rounds. Each agent
was given only the text of one property (two from round 4 on) and a scratch git worktree of `/repo`
(nothing from `/verif`); rounds 2-4 were additionally told which ideas
the earlier rounds had used; round 3 was steered towards size / shape
thresholds, three threads, shard layouts, deadlocks and less exercised types,
round 4 was asked for the hardest-to-observe change it could still demonstrate,\nround 5 for rare configurations combined with a history, interleaving or fault,\nround 6 for what a careful randomized checker could still overlook,\nround 7 for structurally different directions (three interacting objects, forwarding wrappers, table sizes, ...),\nround 8 for concurrency slips only (lock order, publication order of flags, claim flags, in-place mutation of lent data, state copied by Clone mid-operation; plain std primitives that bypass the seam were allowed),\nround 9 for what a randomized differential checker still overlooks: fault paths after which a later call misbehaves, magic sizes (counts / lengths next to powers of two, narrow index types), rare characters or field combinations, arithmetic at the edge of the domain;\nround 10 repeated that brief for other property pairs,\nround 11 asked for what is still overlooked once those sizes, faults and histories are drawn on purpose (state that outlives one object or call, two rare conditions at once, rarely combined observers such as Debug, rarely taken option branches),\nround 12 for code paths the earlier changes had not touched,\nround 13 got one angle per agent (failure of a collaborator such as a child source or an on_source / on_name callback that unwinds once; the number of live clones / reference counts; particular sink or reader behaviours; multi-step ownership histories; different wrappers around one value; two cooperating sites; the replay path; lesser used types and constructors; lazily filled memos under concurrency),\nround 14 likewise (a failure that coincides with an interleaving; what clones of a cache share; what happens after a failure; clone / eq / hash of a ReplaceSource mid-history; sources as map keys across threads; text shapes in line splitting on the replay path; SourceMap value histories; three threads / shard layouts).
Each change compiles, passes the unchanged 79 tests + 9 doctests, and comes
with a demonstration that fails with the change and passes without it; all of
that was re-confirmed with `tools/seed_eval.sh` in a scratch worktree before
the change was kept under `/verif/seeded/<id>/` (patch, demo, author's notes,
`meta.json`, replay files the checks produced). The checks were then run
against `/repo` with the change applied (`git -C /repo apply …; ./check <P>
quick; git -C /repo checkout -- .`), and again for all of them with the final
checks (`tools/seed_sweep.sh`). No scratch worktree or build output is left.

Result with the final checks: **{primary_caught} of {n} are caught by the quick tier of the
check of the property they were written against**; {first_try} at the first attempt,
{primary_caught-first_try} after the check was strengthened (marked †), {n-primary_caught} not caught (marked ✗, discussed below).
"also" = other claimed checks that were tried and fired; "not by" = checks
that were tried and stayed quiet (they decide a different property).

| seeded change | breaks | needs in order to manifest | caught by (quick) |
|---|---|---|---|
""")
for d,p,r,need,caught,missed,hist in rows:
    if p in caught:
        c=", ".join([p]+[x for x in caught if x!=p])
        if hist: c+=" †"
        if missed: c+=f" (not by {', '.join(missed)})"
    else:
        c="✗ not caught"+(f" (tried: {', '.join(missed)})" if missed else "")
    out.append(f"| `{d}` (round {r}) | {p} | {need} | {c} |\n")
out.append("\n† strengthened after a miss / ✗ not caught:\n\n")
for d,p,r,need,caught,missed,hist in rows:
    if hist: out.append(f"* `{d}` — {hist}.\n")
out.append(open('tools/sensitivity_tail.md').read())
s=open('DESIGN.md').read()
if '\n## 13. Sensitivity' in s:
    s=s[:s.index('\n## 13. Sensitivity')]
open('DESIGN.md','w').write(s+"".join(out))
print(n,primary_caught,first_try)
