#!/usr/bin/env bash
# tools/seed_sweep.sh [quick]
# Regression sweep: applies every kept seeded change to /repo in turn, runs the
# quick check of the property it was written against, undoes it, and records
# the exit code in seeded/<id>/meta.json ("last_sweep"). Every one must exit 1.
# Do not run while anything else reads /repo (background runs use /repo itself).
set -u
cd "$(dirname "$0")/.."
fail=0
for d in seeded/*/; do
  id="$(basename "$d")"
  prop="$(python3 -c "import json;print(json.load(open('$d/meta.json'))['breaks_property'])")"
  git -C /repo apply "$PWD/$d/patch.diff" || { echo "[$id] patch does not apply"; fail=1; continue; }
  log="target/sweep-$id.log"; mkdir -p target
  ./check "$prop" quick >"$log" 2>&1; rc=$?
  git -C /repo checkout -q -- .
  find replays -name '*.json' -newer "$d/meta.json" -delete 2>/dev/null
  first="$(grep -m1 -A1 '^VIOLATION' "$log" | tail -1 | cut -c1-160)"
  echo "[$id] $prop quick -> exit $rc $first"
  python3 - "$d/meta.json" "$prop" "$rc" <<'PY'
import json,sys
p,prop,rc=sys.argv[1],sys.argv[2],int(sys.argv[3])
m=json.load(open(p)); m["last_sweep"]={prop:rc}; json.dump(m,open(p,"w"),indent=1)
PY
  [ "$rc" = 1 ] || fail=1
done
[ -z "$(git -C /repo status --short)" ] || { echo "WARNING: /repo is not clean"; fail=1; }
# the evidence files were rewritten by runs against broken trees: restore the committed ones
git checkout -q -- evidence 2>/dev/null
exit $fail
