#!/usr/bin/env bash
# tools/seed_recheck.sh <seeded-id> [props…]
# Re-runs the quick checks (default: the property the change was written
# against) with one kept seeded change applied to /repo, undoes it, keeps the
# replay files under seeded/<id>/replays/ and restores the evidence files.
# Do not run while anything else reads /repo.
set -u
cd "$(dirname "$0")/.."
id="$1"; shift
d="seeded/$id"
[ -f "$d/patch.diff" ] || { echo "no such seeded change: $id"; exit 2; }
if [ $# -eq 0 ]; then set -- "$(python3 -c "import json;print(json.load(open('$d/meta.json'))['breaks_property'])")"; fi
git -C /repo apply "$PWD/$d/patch.diff" || { echo "[$id] patch does not apply"; exit 2; }
for p in "$@"; do
  log="target/recheck-$id-$p.log"; mkdir -p target
  ./check "$p" quick >"$log" 2>&1; rc=$?
  echo "[$id] $p quick -> exit $rc $(grep -m1 -A1 '^VIOLATION' "$log" | tail -1 | cut -c1-300)"
  mkdir -p "$d/replays"
  for f in $(grep -o "replay=[^ ]*" "$log" | cut -d= -f2 | sort -u); do [ -f "$f" ] && mv "$f" "$d/replays/"; done
done
git -C /repo checkout -q -- .
git checkout -q -- evidence 2>/dev/null
[ -z "$(git -C /repo status --short)" ] || echo "WARNING: /repo is not clean"
