#!/usr/bin/env bash
# tools/seed_eval.sh <scratch-worktree> <n> <seeded-id> <primary-prop> [other props...]
# VERIF_EVAL_DIR: run the checks from that checkout of /verif (a scratch git worktree of a
# commit, so that edits in /verif meanwhile do not disturb the build); default /verif
# 1. confirms in the scratch worktree: suite passes with the change, demo fails
#    with it, demo passes without it  (DEMO_FLAGS = RUSTFLAGS for the demo)
# 2. stores patch + demo + meta under /verif/seeded/<id>/
# 3. applies the patch to /repo, runs the quick checks, undoes it
set -u
WT="$1"; N="$2"; ID="$3"; shift 3; PROPS=("$@")
OUT="$WT/out/$N"; DST="/verif/seeded/$ID"
export CARGO_NET_OFFLINE=true
TD="/tmp/seed-target-$(basename "$WT")"
say() { echo "[$ID] $*"; }
cd "$WT" || exit 2
git checkout -q -- . ; rm -f tests/demo.rs
git apply --check "$OUT/patch.diff" || { say "patch does not apply"; exit 2; }
git apply "$OUT/patch.diff"
suite=$(CARGO_TARGET_DIR="$TD" cargo test --offline 2>&1 | grep "test result" | tr '\n' ' ')
suite_ok=no; echo "$suite" | grep -q "77 passed; 0 failed" && echo "$suite" | grep -q "2 passed; 0 failed" && echo "$suite" | grep -q "9 passed; 0 failed" && suite_ok=yes
cp "$OUT/demo.rs" tests/demo.rs
RUSTFLAGS="${DEMO_FLAGS:-}" CARGO_TARGET_DIR="$TD${DEMO_FLAGS:+-f}" timeout 600 cargo test --offline --test demo >"$TD.with.log" 2>&1; with_rc=$?
git apply -R "$OUT/patch.diff"
RUSTFLAGS="${DEMO_FLAGS:-}" CARGO_TARGET_DIR="$TD${DEMO_FLAGS:+-f}" timeout 600 cargo test --offline --test demo >"$TD.without.log" 2>&1; without_rc=$?
rm -f tests/demo.rs; git checkout -q -- .
say "suite_with_change=$suite_ok demo_with_change_rc=$with_rc demo_clean_rc=$without_rc"
confirmed=no; [ "$suite_ok" = yes ] && [ $with_rc -ne 0 ] && [ $without_rc -eq 0 ] && confirmed=yes
mkdir -p "$DST"
cp "$OUT/patch.diff" "$DST/patch.diff"; cp "$OUT/demo.rs" "$DST/demo.rs"; cp "$OUT/README.md" "$DST/author_notes.md"
# 3. run the checks on /repo with the change applied
results=""
if [ "$confirmed" = yes ]; then
  git -C /repo apply "$DST/patch.diff" || { say "cannot apply to /repo"; exit 2; }
  for p in "${PROPS[@]}"; do
    log="/tmp/seed-$ID-$p.log"
    ( cd "${VERIF_EVAL_DIR:-/verif}" && timeout 1800 ./check "$p" quick ) >"$log" 2>&1; rc=$?
    first=$(grep -m1 -A1 "^VIOLATION" "$log" | tr '\n' ' ' | cut -c1-500)
    say "check $p quick -> exit $rc  $first"
    results="$results$p:$rc;"
    mkdir -p "$DST/replays"; for f in $(grep -o "replay=[^ ]*" "$log" | cut -d= -f2 | sort -u); do [ -f "$f" ] && cp "$f" "$DST/replays/" ; done
  done
  git -C /repo checkout -q -- .
  rm -f "${VERIF_EVAL_DIR:-/verif}"/replays/*.json
  # the evidence files were just rewritten by runs against a broken tree
  git -C "${VERIF_EVAL_DIR:-/verif}" checkout -q -- evidence 2>/dev/null
fi
python3 - "$DST" "$ID" "$confirmed" "$suite_ok" "$with_rc" "$without_rc" "$results" "${DEMO_FLAGS:-}" "${PROPS[0]}" <<'PY'
import json,sys,os
dst,id_,confirmed,suite_ok,w,wo,results,flags,prop=sys.argv[1:10]
meta={"id":id_,"breaks_property":prop,"confirmed":confirmed=="yes",
 "what_i_ran":{"existing_suite_with_change":"cargo test --offline -> "+("77+2+9 pass" if suite_ok=="yes" else "FAILED"),
   "demo_with_change":f"cargo test --offline --test demo (RUSTFLAGS={flags!r}) -> exit {w}",
   "demo_on_clean_tree":f"cargo test --offline --test demo (RUSTFLAGS={flags!r}) -> exit {wo}"},
 "quick_checks_with_change_applied_to_repo":{kv.split(':')[0]:int(kv.split(':')[1]) for kv in results.split(';') if kv},
 "needs_to_manifest":"see author_notes.md"}
json.dump(meta,open(os.path.join(dst,"meta.json"),"w"),indent=1)
PY
say "done confirmed=$confirmed"
