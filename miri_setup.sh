#!/usr/bin/env bash
# Builds /verif/.vendor (a merged, checksum-stamped vendor directory made of
# hard links to the crates already unpacked in ~/.cargo/registry) so that the
# *nightly* cargo can resolve the repository's dependency graph offline, then
# builds the Miri sysroot and the vsim binary for Miri once.
set -eu
cd "$(dirname "$0")"
VERIF_DIR="$(pwd)"
REG="$HOME/.cargo/registry"
VENDOR="$VERIF_DIR/.vendor"
if ! cargo +nightly miri --version >/dev/null 2>&1; then
  echo "miri_setup: cargo +nightly miri not available"; exit 1
fi
if [ ! -f "$VENDOR/.complete" ]; then
  rm -rf "$VENDOR"; mkdir -p "$VENDOR"
  for src in "$REG"/src/*/; do
    idx="$(basename "$src")"
    for d in "$src"*/; do
      name="$(basename "$d")"
      [ -e "$VENDOR/$name" ] && continue
      cp -al "$d" "$VENDOR/$name" 2>/dev/null || cp -a "$d" "$VENDOR/$name"
      crate="$REG/cache/$idx/$name.crate"
      if [ -f "$crate" ]; then
        sum="$(sha256sum "$crate" | cut -d' ' -f1)"
        printf '{"files":{},"package":"%s"}' "$sum" > "$VENDOR/$name/.cargo-checksum.json"
      else
        printf '{"files":{},"package":null}' > "$VENDOR/$name/.cargo-checksum.json"
      fi
    done
  done
  touch "$VENDOR/.complete"
fi
mkdir -p "$VERIF_DIR/sim-miri/.cargo"
cat > "$VERIF_DIR/sim-miri/.cargo/config.toml" <<CFG
[source.crates-io]
replace-with = "vendored"

[source.vendored]
directory = "$VENDOR"

[net]
offline = true

[build]
target-dir = "$VERIF_DIR/target/miri"
CFG
cd "$VERIF_DIR/sim-miri"
export RUSTFLAGS="--cfg rspack_sources_verif"
export MIRIFLAGS="-Zmiri-disable-isolation"
unset CARGO_TARGET_DIR
# one tiny run builds the sysroot and the binary
cargo +nightly miri run --quiet --manifest-path ../sim/Cargo.toml -- miri-one 1 0
echo "miri_setup ok"
